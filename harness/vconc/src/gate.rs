//! Driver-owned schedule control on top of the `verif-hooks` schedule points.
//!
//! One process-wide controller. The hook logs every event with a global sequence number and
//! parks the calling thread when the site's gate is closed. The driver (interpreter) thread
//! opens / closes gates and waits for other threads to reach theirs, so a generated history is
//! executed deterministically.

use nucleo::verif::site;
use parking_lot::{Condvar, Mutex};
use std::collections::{HashMap, HashSet};
use std::sync::atomic::{AtomicBool, AtomicU64, Ordering};
use std::sync::OnceLock;
use std::time::{Duration, Instant};

#[derive(Clone, Copy, Debug, PartialEq, Eq)]
pub struct Event {
    pub seq: u64,
    pub site: u32,
    pub arg: u64,
    /// 0 = driver thread, otherwise an arbitrary stable id of the calling thread
    pub thread: u64,
}

/// sites belonging to Worker::run in program order
pub const RUN_SITES: [u32; 8] = [site::RUN_START, site::RUN_AFTER_RESET, site::RUN_AFTER_SCAN, site::RUN_AFTER_SORT, site::RUN_BEFORE_NOTIFY_READ, site::RUN_AFTER_NOTIFY, site::RUN_END, site::RUN_JOB_DONE];

/// pseudo sites logged by the harness itself
pub mod hsite {
    pub const FILL_ENTER: u32 = 1000;
    pub const FILL_LEAVE: u32 = 1001;
    pub const PUSH_RETURNED: u32 = 1002; // arg = item id << 32 | idx
    pub const NOTIFY: u32 = 1003;
    pub const TICK_BEGIN: u32 = 1004;
    pub const TICK_END: u32 = 1005;
    pub const RESTART: u32 = 1006;
    pub const EXTEND_RETURNED: u32 = 1007;
}

#[derive(Default)]
pub struct State {
    pub log: Vec<Event>,
    /// run-phase site at which a run parks (0 = runs are free)
    pub run_hold: u32,
    /// the site where a run is currently parked (0 = none)
    pub run_parked: u32,
    /// number of runs that started / ended
    pub runs_started: u64,
    pub runs_ended: u64,
    /// runs handed to the pool by tick (counted synchronously on the ticking thread)
    pub spawned: u64,
    /// uninitialised entry dereference detected (index)
    pub fatal_uninit: Option<u64>,
    /// INFLIGHT_PUSH ordering: hold pushes of indices below `.0` until index `.0` was pushed
    pub inflight_order: Option<u64>,
    pub inflight_seen: HashSet<u64>,
    /// per-site counters (sort branches etc.)
    pub counters: HashMap<u32, u64>,
    /// generic gates keyed by (site, arg): a thread reaching a closed gate parks
    pub closed: HashSet<(u32, u64)>,
    pub parked: HashMap<(u32, u64), u32>,
    /// log boxcar events too (C08)
    pub log_boxcar: bool,
    /// hold scoring of this item index until released (cancel mid-scan)
    pub score_hold: Option<u64>,
    pub score_parked: bool,
    /// a tick is waiting for the blocking lock: nothing may park (the hold stays armed for later runs)
    pub no_park: bool,
    /// ... including finished jobs held at RUN_JOB_DONE (they do not own the lock, so they stay parked
    /// unless a queued job that owns the lock guard waits for their pool thread)
    pub no_park_job_done: bool,
}

pub struct Ctl {
    pub st: Mutex<State>,
    pub cv: Condvar,
    pub seq: AtomicU64,
    pub abandon: AtomicBool,
}

pub fn ctl() -> &'static Ctl {
    static C: OnceLock<Ctl> = OnceLock::new();
    C.get_or_init(|| Ctl { st: Mutex::new(State::default()), cv: Condvar::new(), seq: AtomicU64::new(1), abandon: AtomicBool::new(false) })
}

thread_local! {
    pub static IS_DRIVER: std::cell::Cell<bool> = const { std::cell::Cell::new(false) };
    /// tick-side callback executed inline on the driver thread at TICK_* sites
    pub static TICK_PLAN: std::cell::RefCell<Option<Box<dyn FnMut(u32)>>> = const { std::cell::RefCell::new(None) };
}

fn thread_id() -> u64 {
    if IS_DRIVER.with(|d| d.get()) {
        0
    } else {
        let id = std::thread::current().id();
        let s = format!("{id:?}");
        s.bytes().filter(|b| b.is_ascii_digit()).fold(0u64, |a, b| a * 10 + (b - b'0') as u64) + 1
    }
}

pub fn log_event(site: u32, arg: u64) -> u64 {
    let c = ctl();
    let seq = c.seq.fetch_add(1, Ordering::SeqCst);
    let mut st = c.st.lock();
    st.log.push(Event { seq, site, arg, thread: thread_id() });
    seq
}

pub const WAIT_LIMIT: Duration = Duration::from_secs(20);

/// park forever (the case is abandoned and its threads are leaked)
fn park_forever() -> ! {
    loop {
        std::thread::sleep(Duration::from_secs(3600));
    }
}

pub fn hook(s: u32, arg: u64) {
    let c = ctl();
    if c.abandon.load(Ordering::Relaxed) && !IS_DRIVER.with(|d| d.get()) {
        park_forever();
    }
    match s {
        site::FATAL_UNINIT => {
            {
                let mut st = c.st.lock();
                st.fatal_uninit = Some(arg);
                let seq = c.seq.fetch_add(1, Ordering::SeqCst);
                st.log.push(Event { seq, site: s, arg, thread: thread_id() });
            }
            c.cv.notify_all();
            if IS_DRIVER.with(|d| d.get()) {
                // the driver itself would dereference an uninitialised entry: unwind out of it
                panic!("FATAL_UNINIT on the driver thread for index {arg}");
            }
            // a pool thread is about to read uninitialised memory while holding the worker lock:
            // it can neither continue nor be unwound, so the process ends here with a verdict
            vcommon::driver::fatal_verdict("C06", "uninit-item-read", &format!("the library dereferenced the uninitialised entry {arg} (get_unchecked on an item that was never published) on a worker thread"));
        }
        site::SORT_HEAPSORT..=site::SORT_INSERTION => {
            let mut st = c.st.lock();
            *st.counters.entry(s).or_insert(0) += 1;
        }
        site::RUN_START | site::RUN_AFTER_RESET | site::RUN_AFTER_SCAN | site::RUN_AFTER_SORT | site::RUN_BEFORE_NOTIFY_READ | site::RUN_AFTER_NOTIFY | site::RUN_END | site::RUN_JOB_DONE => {
            let seq = c.seq.fetch_add(1, Ordering::SeqCst);
            let mut st = c.st.lock();
            st.log.push(Event { seq, site: s, arg, thread: thread_id() });
            if s == site::RUN_START {
                st.runs_started += 1;
            }
            let free = |st: &State| st.no_park && (s != site::RUN_JOB_DONE || st.no_park_job_done);
            if st.run_hold == s && !free(&st) {
                st.run_parked = s;
                c.cv.notify_all();
                let t0 = Instant::now();
                while st.run_hold == s && !free(&st) && !c.abandon.load(Ordering::Relaxed) {
                    c.cv.wait_for(&mut st, Duration::from_millis(50));
                    if t0.elapsed() > Duration::from_secs(120) {
                        break;
                    }
                }
                // another job may have parked elsewhere meanwhile (a finished job held at RUN_JOB_DONE
                // and its successor): only clear our own mark
                if st.run_parked == s {
                    st.run_parked = 0;
                }
            }
            // a run counts as ended when the spawned job is done (lock released, late notification made)
            if s == site::RUN_JOB_DONE {
                st.runs_ended += 1;
            }
            drop(st);
            c.cv.notify_all();
        }
        site::INFLIGHT_PUSH => {
            let seq = c.seq.fetch_add(1, Ordering::SeqCst);
            let mut st = c.st.lock();
            st.log.push(Event { seq, site: s, arg, thread: thread_id() });
            if let Some(big) = st.inflight_order {
                if arg < big {
                    // hold the smaller index until the larger one was pushed (bounded)
                    let t0 = Instant::now();
                    while !st.inflight_seen.contains(&big) && t0.elapsed() < Duration::from_millis(60) {
                        c.cv.wait_for(&mut st, Duration::from_millis(5));
                    }
                }
            }
            st.inflight_seen.insert(arg);
            drop(st);
            c.cv.notify_all();
        }
        site::RUN_SCORE_ITEM => {
            let mut st = c.st.lock();
            if st.score_hold == Some(arg) && !st.no_park {
                st.score_parked = true;
                c.cv.notify_all();
                let t0 = Instant::now();
                while st.score_hold == Some(arg) && !st.no_park && t0.elapsed() < Duration::from_secs(120) && !c.abandon.load(Ordering::Relaxed) {
                    c.cv.wait_for(&mut st, Duration::from_millis(50));
                }
                st.score_parked = false;
            }
        }
        site::TICK_AFTER_CLEAR | site::TICK_BEFORE_BLOCKING_LOCK | site::TICK_TRYLOCK_FAILED | site::TICK_AFTER_REARM | site::TICK_AFTER_SPAWN | site::TICK_LOCKED => {
            log_event(s, arg);
            // never block a tick that is about to take the blocking lock while a run is parked
            if s == site::TICK_BEFORE_BLOCKING_LOCK {
                {
                    let mut st = c.st.lock();
                    st.no_park = true;
                    // a job that was spawned but has not started owns the lock guard: its pool thread must come free
                    st.no_park_job_done = st.spawned > st.runs_started;
                }
                c.cv.notify_all();
                release_score();
            }
            if s == site::TICK_LOCKED {
                let mut st = c.st.lock();
                st.no_park = false;
                st.no_park_job_done = false;
            }
            if s == site::TICK_AFTER_SPAWN {
                c.st.lock().spawned += 1;
            }
            let plan = TICK_PLAN.with(|p| p.borrow_mut().take());
            if let Some(mut f) = plan {
                f(s);
                TICK_PLAN.with(|p| {
                    let mut p = p.borrow_mut();
                    if p.is_none() {
                        *p = Some(f);
                    }
                });
            }
        }
        site::BOXCAR_PUBLISHED => {
            let seq = c.seq.fetch_add(1, Ordering::SeqCst);
            let mut st = c.st.lock();
            st.log.push(Event { seq, site: s, arg, thread: thread_id() });
        }
        site::BOXCAR_PUSH_RESERVE..=site::BOXCAR_ITER_LOAD => {
            let mut st = c.st.lock();
            if st.log_boxcar {
                let seq = c.seq.fetch_add(1, Ordering::SeqCst);
                st.log.push(Event { seq, site: s, arg, thread: thread_id() });
            }
            if st.closed.contains(&(s, arg)) {
                *st.parked.entry((s, arg)).or_insert(0) += 1;
                c.cv.notify_all();
                let t0 = Instant::now();
                while st.closed.contains(&(s, arg)) && t0.elapsed() < Duration::from_secs(120) && !c.abandon.load(Ordering::Relaxed) {
                    c.cv.wait_for(&mut st, Duration::from_millis(50));
                }
                if let Some(n) = st.parked.get_mut(&(s, arg)) {
                    *n = n.saturating_sub(1);
                }
            }
        }
        _ => {}
    }
}

/// the property a worker-thread panic is reported under (C06 unless the running check claims it)
pub static PANIC_OWNER: Mutex<&'static str> = Mutex::new("C06");

/// a panic on a library worker thread would abort the process (rayon): report it as a verdict
pub fn install_worker_panic_hook() {
    static ONCE: std::sync::Once = std::sync::Once::new();
    ONCE.call_once(|| {
        let prev = std::panic::take_hook();
        std::panic::set_hook(Box::new(move |info| {
            let on_worker = std::thread::current().name().map_or(false, |n| n.starts_with("nucleo worker"));
            if on_worker {
                let loc = info.location().map(|l| format!("{}:{}", l.file(), l.line())).unwrap_or_default();
                let msg = info.payload().downcast_ref::<&str>().map(|s| s.to_string()).or_else(|| info.payload().downcast_ref::<String>().cloned()).unwrap_or_else(|| "panic".into());
                let owner = *PANIC_OWNER.lock();
                vcommon::driver::fatal_verdict(owner, &format!("worker-panic:{loc}"), &format!("a library worker thread panicked: {msg} at {loc}"));
            }
            prev(info)
        }));
    });
}

/// reset the controller for a new case and install the hook
pub fn reset() {
    install_worker_panic_hook();
    *PANIC_OWNER.lock() = "C06";
    let c = ctl();
    c.abandon.store(false, Ordering::Relaxed);
    *c.st.lock() = State::default();
    IS_DRIVER.with(|d| d.set(true));
    TICK_PLAN.with(|p| *p.borrow_mut() = None);
    nucleo::verif::set_hook(Some(hook));
}

/// abandon the case: every hooked thread parks forever from now on
pub fn abandon() {
    let c = ctl();
    c.abandon.store(true, Ordering::Relaxed);
    c.cv.notify_all();
}

pub fn fatal() -> Option<u64> {
    ctl().st.lock().fatal_uninit
}

/// let runs park at `site` (0 = free)
pub fn hold_run_at(s: u32) {
    let c = ctl();
    c.st.lock().run_hold = s;
    c.cv.notify_all();
}
pub fn release_run() {
    hold_run_at(0);
}
/// the driver is about to block on the worker lock outside a tick (update_config): nothing may park
pub fn begin_blocking() {
    let c = ctl();
    {
        let mut st = c.st.lock();
        st.no_park = true;
        st.no_park_job_done = st.spawned > st.runs_started;
        st.score_hold = None;
    }
    c.cv.notify_all();
}
pub fn end_blocking() {
    let c = ctl();
    {
        let mut st = c.st.lock();
        st.no_park = false;
        st.no_park_job_done = false;
    }
    c.cv.notify_all();
}
pub fn release_score() {
    let c = ctl();
    c.st.lock().score_hold = None;
    c.cv.notify_all();
}

#[derive(Debug, PartialEq, Eq, Clone, Copy)]
pub enum Waited {
    Parked,
    Ended,
    Fatal,
    Timeout,
}

/// wait until a run is parked at `s`, or `ended_target` runs have ended
pub fn wait_run_parked_or_ended(s: u32, ended_target: u64) -> Waited {
    let c = ctl();
    let t0 = Instant::now();
    let mut st = c.st.lock();
    loop {
        if st.fatal_uninit.is_some() {
            return Waited::Fatal;
        }
        if (s != 0 && st.run_parked == s) || st.score_parked {
            return Waited::Parked;
        }
        if st.runs_ended >= ended_target {
            return Waited::Ended;
        }
        if t0.elapsed() > WAIT_LIMIT {
            return Waited::Timeout;
        }
        c.cv.wait_for(&mut st, Duration::from_millis(20));
    }
}

/// move a (possibly parked) run forward to `s` and wait until it is parked there or has ended
pub fn advance_run_to(s: u32) -> Waited {
    let c = ctl();
    let target = {
        let mut st = c.st.lock();
        st.run_hold = s;
        st.spawned.max(st.runs_ended + 1)
    };
    c.cv.notify_all();
    wait_run_parked_or_ended(s, target)
}

/// (runs handed to the pool, runs ended)
pub fn runs() -> (u64, u64) {
    let st = ctl().st.lock();
    (st.spawned.max(st.runs_started), st.runs_ended)
}

/// wait until every started run has ended (plus a short settle for the lock guard to drop)
pub fn wait_runs_idle() -> Waited {
    let c = ctl();
    let t0 = Instant::now();
    {
        let mut st = c.st.lock();
        loop {
            if st.fatal_uninit.is_some() {
                return Waited::Fatal;
            }
            if st.runs_ended >= st.runs_started.max(st.spawned) {
                break;
            }
            // a mark left by a thread that is about to leave a hold that was lifted meanwhile does not count
            if st.score_parked || (st.run_parked != 0 && st.run_parked == st.run_hold) {
                return Waited::Parked;
            }
            if t0.elapsed() > WAIT_LIMIT {
                return Waited::Timeout;
            }
            c.cv.wait_for(&mut st, Duration::from_millis(10));
        }
    }
    std::thread::sleep(Duration::from_micros(300));
    Waited::Ended
}

pub fn take_log() -> Vec<Event> {
    ctl().st.lock().log.clone()
}
pub fn counters() -> HashMap<u32, u64> {
    ctl().st.lock().counters.clone()
}

pub fn close_gate(s: u32, arg: u64) {
    ctl().st.lock().closed.insert((s, arg));
}
pub fn open_gate(s: u32, arg: u64) {
    let c = ctl();
    c.st.lock().closed.remove(&(s, arg));
    c.cv.notify_all();
}
pub fn open_all_gates() {
    let c = ctl();
    c.st.lock().closed.clear();
    c.cv.notify_all();
}
/// wait until `n` threads are parked at the closed gate (site, arg); bounded by `limit`
pub fn wait_parked_n(s: u32, arg: u64, n: u32, limit: Duration) -> bool {
    let c = ctl();
    let t0 = Instant::now();
    let mut st = c.st.lock();
    while st.parked.get(&(s, arg)).copied().unwrap_or(0) < n {
        if t0.elapsed() > limit {
            return false;
        }
        c.cv.wait_for(&mut st, Duration::from_millis(5));
    }
    true
}
