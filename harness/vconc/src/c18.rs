//! C18 — the cancellable parallel sort returns a sorted permutation.

use crate::gate;
use nucleo::verif::{par_quicksort, site};
use parking_lot::Mutex;
use proptest::prelude::*;
use serde::{Deserialize, Serialize};
use std::sync::atomic::{AtomicBool, AtomicU64, Ordering};
use std::sync::Arc;
use vcommon::driver::{guarded, Check, Outcome, Tier};

pub struct C18;

#[derive(Clone, Debug, Serialize, Deserialize, Hash)]
pub struct SortCase {
    pub n: u32,
    /// 0 random 1 sorted 2 reversed 3 organ-pipe 4 saw-tooth 5 few-distinct 6 all-equal 7 sorted-with-swaps 8 adversary
    /// 9 sorted run followed by larger keys in arbitrary order
    pub arrangement: u8,
    pub salt: u32,
    pub distinct: u32,
    pub threads: u8,
    /// raise the cancel flag at this comparison (0 = before the call); None = never
    pub cancel_at: Option<u32>,
    /// compare (key, id) instead of key only
    pub total: bool,
    /// number of items for the end-to-end Nucleo ordering sub-check (0 = skip)
    pub nucleo_items: u32,
    /// alternative to cancel_at: raise the flag at this fraction (x/65536) of 2*n*log2(n) comparisons
    #[serde(default)]
    pub cancel_frac: Option<u16>,
    /// the comparator lowers the flag again this many comparisons after it raised it
    #[serde(default)]
    pub lower_after: Option<u16>,
    /// sort elements that have drop glue (a drop counter) instead of plain pairs
    #[serde(default)]
    pub dropping: bool,
}

/// an element with drop glue: every drop is counted
struct Counted(u32, u32);
static DROPS: AtomicU64 = AtomicU64::new(0);
impl Drop for Counted {
    fn drop(&mut self) {
        DROPS.fetch_add(1, Ordering::SeqCst);
    }
}

fn h(i: u32, salt: u32) -> u32 {
    let mut x = (i as u64).wrapping_mul(0x9E37_79B9_7F4A_7C15) ^ ((salt as u64) << 17 | 0x1234_5);
    x ^= x >> 29;
    x = x.wrapping_mul(0xBF58_476D_1CE4_E5B9);
    x ^= x >> 32;
    x as u32
}

pub fn make_data(c: &SortCase) -> Vec<(u32, u32)> {
    let n = c.n;
    let mut keys: Vec<u32> = (0..n)
        .map(|i| match c.arrangement {
            0 => h(i, c.salt),
            1 | 7 => i,
            2 => n - i,
            3 => i.min(n - i),
            4 => i % (c.salt % 50 + 2),
            5 => h(i, c.salt) % c.distinct.max(1),
            6 => 7,
            // a sorted run of small keys followed by larger keys in arbitrary order
            9 => {
                if i < n / 2 {
                    i
                } else {
                    n + h(i, c.salt) % n.max(1)
                }
            }
            // random keys; the positions pivot selection samples get extreme keys below
            11 => h(i, c.salt) % n.max(1),
            // few distinct keys in sorted order (long runs of duplicates); defects are added below
            10 => {
                let d = if c.distinct > 0 { c.distinct + 1 } else { c.salt % 30 + 2 } as u64;
                (i as u64 * d / n.max(1) as u64) as u32
            }
            _ => i,
        })
        .collect();
    if c.arrangement == 11 && n >= 8 {
        // pdqsort samples around n/4, n/2, 3n/4: make the chosen pivot one of the largest (salt even) or smallest keys
        let top = c.salt % 2 == 0;
        let mut k = 0u32;
        for centre in [n / 4, n / 2, n / 4 * 3] {
            for d in [-1i64, 0, 1] {
                let at = (centre as i64 + d).clamp(0, n as i64 - 1) as usize;
                keys[at] = if top { n + 100 - k } else { k / 3 };
                k += 1;
            }
        }
    }
    if c.arrangement == 10 && n >= 2 {
        let d = if c.distinct > 0 { c.distinct + 1 } else { c.salt % 30 + 2 };
        let defects = 3 + h(77, c.salt) % (n / 40 + 8);
        for s in 0..defects {
            let at = (h(s, c.salt) % n) as usize;
            keys[at] = h(s + 1000, c.salt) % d;
        }
    }
    if c.distinct > 0 && c.arrangement != 5 && c.arrangement != 10 && c.arrangement != 11 {
        for k in keys.iter_mut() {
            *k %= c.distinct;
        }
    }
    if c.arrangement == 7 && n >= 2 {
        for s in 0..(c.salt % 4 + 1) {
            let a = (h(s, c.salt) % n) as usize;
            let b = (h(s + 100, c.salt) % n) as usize;
            keys.swap(a, b);
        }
    }
    keys.into_iter().enumerate().map(|(i, k)| (k, i as u32)).collect()
}

thread_local! {
    /// number of comparisons an uncancelled run of the current case makes (measured by a dry run)
    static BUDGET: std::cell::Cell<Option<u64>> = const { std::cell::Cell::new(None) };
}

pub fn effective_cancel(c: &SortCase) -> Option<u32> {
    c.cancel_at.or_else(|| {
        c.cancel_frac.map(|f| {
            let n = c.n.max(2) as u64;
            let budget = BUDGET.with(|b| b.get()).unwrap_or(2 * n * (64 - n.leading_zeros() as u64));
            ((f as u64 * budget) >> 16) as u32
        })
    })
}

struct Adversary {
    val: Vec<u32>,
    nsolid: u32,
    candidate: u32,
}
const GAS: u32 = u32::MAX;

fn sizes() -> BoxedStrategy<u32> {
    prop_oneof![
        5 => proptest::sample::select(vec![0u32, 1, 2, 3]),
        15 => proptest::sample::select(vec![19u32, 20, 21, 22, 49, 50, 51]),
        35 => 23u32..2000,
        10 => proptest::sample::select(vec![1999u32, 2000, 2001, 2002, 4001, 4095, 4096, 4097]),
        25 => 2003u32..20000,
        8 => proptest::sample::select(vec![32767u32, 32768, 32769, 65535, 65537, 131071]),
        2 => proptest::sample::select(vec![262143u32, 300000]),
    ]
    .boxed()
}

fn pool(threads: usize) -> rayon::ThreadPool {
    rayon::ThreadPoolBuilder::new().num_threads(threads.max(1)).build().expect("pool")
}

fn run_sort(c: &SortCase, threads: usize, data: &[(u32, u32)]) -> Result<(Vec<(u32, u32)>, bool, bool), String> {
    let mut v = data.to_vec();
    let flag = AtomicBool::new(false);
    let calls = AtomicU64::new(0);
    let raised = AtomicBool::new(false);
    if effective_cancel(c) == Some(0) {
        flag.store(true, Ordering::Relaxed);
        raised.store(true, Ordering::Relaxed);
    }
    let total = c.total;
    let cancel_at = effective_cancel(c).map(|x| x as u64);
    let lower_at = match (cancel_at, c.lower_after) {
        (Some(a), Some(d)) if a > 0 => Some(a + 1 + d as u64),
        _ => None,
    };
    let p = pool(threads);
    if c.dropping && c.arrangement != 8 {
        // the same sort over elements with drop glue: nothing may be dropped (or duplicated) by the sort
        let mut w: Vec<Counted> = data.iter().map(|e| Counted(e.0, e.1)).collect();
        DROPS.store(0, Ordering::SeqCst);
        let res = guarded(|| {
            p.install(|| {
                par_quicksort(
                    &mut w,
                    |a, b| {
                        let k = calls.fetch_add(1, Ordering::Relaxed) + 1;
                        if Some(k) == cancel_at {
                            flag.store(true, Ordering::Relaxed);
                            raised.store(true, Ordering::Relaxed);
                        }
                        if Some(k) == lower_at {
                            flag.store(false, Ordering::Relaxed);
                        }
                        if total {
                            (a.0, a.1) < (b.0, b.1)
                        } else {
                            a.0 < b.0
                        }
                    },
                    &flag,
                )
            })
        })?;
        let during = DROPS.load(Ordering::SeqCst);
        let v: Vec<(u32, u32)> = w.iter().map(|e| (e.0, e.1)).collect();
        let n = w.len() as u64;
        drop(w);
        let after = DROPS.load(Ordering::SeqCst);
        if during != 0 || after != during + n {
            return Err(format!("DROPPED: the sort dropped {during} element(s) of the slice it was sorting ({} drops in total for {n} elements)", after));
        }
        LAST_CALLS.with(|l| l.set(calls.load(Ordering::Relaxed)));
        return Ok((v, res, raised.load(Ordering::Relaxed)));
    }
    // McIlroy's lazy adversary; a descending pre-frozen prefix defeats the "likely sorted" shortcut
    let adv = (c.arrangement == 8).then(|| {
        let pre = (c.salt % 40 + 8).min(c.n);
        let mut val = vec![GAS; c.n as usize];
        for i in 0..pre {
            val[i as usize] = pre - 1 - i;
        }
        Mutex::new(Adversary { val, nsolid: pre, candidate: 0 })
    });
    let res = guarded(|| {
        p.install(|| {
            par_quicksort(
                &mut v,
                |a, b| {
                    let k = calls.fetch_add(1, Ordering::Relaxed) + 1;
                    if Some(k) == cancel_at {
                        flag.store(true, Ordering::Relaxed);
                        raised.store(true, Ordering::Relaxed);
                    }
                    if Some(k) == lower_at {
                        flag.store(false, Ordering::Relaxed);
                    }
                    if let Some(adv) = &adv {
                        let mut s = adv.lock();
                        let (x, y) = (a.1 as usize, b.1 as usize);
                        if s.val[x] == GAS && s.val[y] == GAS {
                            if a.1 == s.candidate {
                                s.val[x] = s.nsolid;
                            } else {
                                s.val[y] = s.nsolid;
                            }
                            s.nsolid += 1;
                        }
                        if s.val[x] == GAS {
                            s.candidate = a.1;
                        } else if s.val[y] == GAS {
                            s.candidate = b.1;
                        }
                        return s.val[x] < s.val[y];
                    }
                    if total {
                        a < b
                    } else {
                        a.0 < b.0
                    }
                },
                &flag,
            )
        })
    })?;
    // for the adversary the final keys are the frozen values (remaining gas elements are equal and largest)
    if let Some(adv) = adv {
        let s = adv.into_inner();
        for e in v.iter_mut() {
            e.0 = s.val[e.1 as usize];
        }
    }
    LAST_CALLS.with(|l| l.set(calls.load(Ordering::Relaxed)));
    Ok((v, res, raised.load(Ordering::Relaxed)))
}

thread_local! {
    static LAST_CALLS: std::cell::Cell<u64> = const { std::cell::Cell::new(0) };
}

impl Check for C18 {
    type Case = SortCase;
    fn id(&self) -> &'static str {
        "C18"
    }
    fn isolate_case(&self, c: &SortCase) -> bool {
        // a worker-thread panic inside the end-to-end sub-check ends the process
        c.nucleo_items > 0
    }
    fn rule(&self) -> String {
        "slices of (key,id) with lengths {0..3, 19..22, 49..51, 23..2000, 1999..2002, 4001, 4095..4097, 2003..20000, 2^15/2^16/2^17 +-1, 262143, 300000}; arrangements random / sorted / reversed / organ-pipe / saw-tooth / few distinct keys / all equal / sorted-with-swaps / random with the largest or smallest keys at the positions pivot selection samples / sorted runs of few distinct keys with 3..n/40 overwritten positions (duplicate-heavy, nearly sorted) / McIlroy antiquicksort adversary comparator (forces heapsort and break_patterns); comparator on key only (strict weak order with ties) or (key,id) total order; own rayon pools of 1,2,3,8,16 threads; cancel flag raised by the comparator at its k-th call (0, small, mid, never), in a fifth of the cases lowered again up to 3000 (templates: 60000) calls later; a seventh of the cases sort elements with drop glue (drop counter: the sort may neither drop nor duplicate an element); plus an end-to-end sub-check: the same items and pattern through Nucleo with 1/2/4/8 (and, in a quarter of these cases, 2*cores+1) worker threads must give identical match lists in the documented order. Oracle: multiset unchanged always; non-decreasing when 'not cancelled' is reported; 'not cancelled' whenever the flag was never raised; equal to slice::sort for total orders and across thread counts. Non-trivial: length > 20 and input not already sorted. Branch labels come from the SORT_* hook counters; one template per branch runs in every run.".into()
    }
    fn total_cases(&self, tier: Tier) -> u64 {
        match tier {
            Tier::Quick => 4_000,
            Tier::Thorough => 200_000,
        }
    }
    fn templates(&self, _tier: Tier) -> Vec<SortCase> {
        let b = SortCase { n: 0, arrangement: 0, salt: 1, distinct: 0, threads: 4, cancel_at: None, total: false, nucleo_items: 0, cancel_frac: None, lower_after: None, dropping: false };
        let v = vec![
            SortCase { n: 6000, arrangement: 8, threads: 1, ..b.clone() },  // heapsort + break_patterns
            SortCase { n: 3000, arrangement: 8, threads: 3, ..b.clone() },
            SortCase { n: 200, arrangement: 7, salt: 0, ..b.clone() },      // partial insertion sort
            SortCase { n: 3000, arrangement: 5, distinct: 2, ..b.clone() }, // partition_equal
            SortCase { n: 9001, arrangement: 0, total: true, threads: 8, ..b.clone() }, // join
            SortCase { n: 9001, arrangement: 0, cancel_at: Some(0), ..b.clone() },
            SortCase { n: 20001, arrangement: 0, cancel_at: Some(30000), threads: 8, ..b.clone() },
            SortCase { n: 100, arrangement: 1, nucleo_items: 5000, ..b.clone() },
            SortCase { n: 300000, arrangement: 3, threads: 16, ..b.clone() },
        ];
        // cancellation raised at evenly spaced points inside small, sequentially sorted slices
        let mut v = v;
        for (arrangement, distinct) in [(9u8, 0u32), (7, 0), (5, 4), (0, 0)] {
            for n in [60u32, 300, 1000] {
                for k in 0..24u32 {
                    v.push(SortCase { n, arrangement, distinct, salt: 3 + k, threads: 1, cancel_frac: Some((k * 2731 + 500) as u16), ..b.clone() });
                }
            }
        }
        // the sampled pivot positions hold the largest / smallest keys of a slice with a large and a tiny side
        for n in [2100u32, 2500, 4001, 9000, 20000] {
            for salt in 0..6u32 {
                v.push(SortCase { n, arrangement: 11, salt: salt + n, threads: [1u8, 2, 4][salt as usize % 3], ..b.clone() });
            }
        }
        // elements with drop glue; a flag that is lowered again while the sort is still running
        for n in [100u32, 1000, 5000, 30000] {
            v.push(SortCase { n, arrangement: 0, salt: n + 1, dropping: true, threads: 2, ..b.clone() });
            v.push(SortCase { n, arrangement: 5, distinct: 7, salt: n + 2, dropping: true, cancel_frac: Some(30000), ..b.clone() });
        }
        for (n, at, d) in [(9000u32, 400u32, 50u16), (20001, 30000, 2000), (50000, 100000, 1), (300000, 400000, 60000), (300000, 1000000, 200)] {
            v.push(SortCase { n, arrangement: 0, salt: 77, threads: 8, cancel_at: Some(at), lower_after: Some(d), ..b.clone() });
        }
        // (a raised flag is only looked at when a level with a side of more than 2000 elements starts: several
        // windows of 65000 comparisons each make it certain that one of them contains such a look)
        for (k, at) in [100_000u32, 300_000, 500_000, 900_000, 1_500_000, 2_500_000, 3_500_000].into_iter().enumerate() {
            v.push(SortCase { n: 300_000, arrangement: 0, salt: 100 + k as u32, threads: 8, cancel_at: Some(at), lower_after: Some(65_000), ..b.clone() });
            v.push(SortCase { n: 120_000, arrangement: 0, salt: 200 + k as u32, threads: 4, cancel_at: Some(at / 3), lower_after: Some(40_000), ..b.clone() });
        }
        // more worker threads than cores: per-thread scratch state of the matcher pool
        v.push(SortCase { n: 100, arrangement: 0, salt: 5, nucleo_items: 6000, ..b.clone() });
        v.push(SortCase { n: 100, arrangement: 0, salt: 9, nucleo_items: 3000, ..b.clone() });
        // duplicate-heavy nearly sorted slices of every shape (partition_equal after a partial insertion sort)
        for n in [120u32, 400, 1000, 2500, 5000, 12000] {
            for salt in 0..40u32 {
                v.push(SortCase { n, arrangement: 10, salt: salt * 7919 + n, distinct: salt % 5, threads: if salt % 2 == 0 { 1 } else { 4 }, ..b.clone() });
            }
        }
        v
    }
    fn strategy(&self, _tier: Tier) -> BoxedStrategy<SortCase> {
        (sizes(), prop_oneof![26 => Just(0u8), 7 => Just(1u8), 7 => Just(2u8), 7 => Just(3u8), 7 => Just(4u8), 13 => Just(5u8), 4 => Just(6u8), 11 => Just(7u8), 9 => Just(8u8), 9 => Just(9u8), 14 => Just(10u8), 8 => Just(11u8)], any::<u32>(), prop_oneof![60 => Just(0u32), 40 => 1u32..40], proptest::sample::select(vec![1u8, 2, 3, 8, 16]), prop_oneof![45 => Just((None, None)), 4 => Just((Some(0u32), None)), 8 => (1u32..5000).prop_map(|k| (Some(k), None)), 8 => (5000u32..400000).prop_map(|k| (Some(k), None)), 35 => any::<u16>().prop_map(|f| (None, Some(f)))], any::<bool>(), prop_oneof![90 => Just(0u32), 10 => 1u32..6000], proptest::bool::weighted(0.45), 23u32..1200)
            .prop_map(|(n, arrangement, salt, distinct, threads, (cancel_at, cancel_frac), total, nucleo_items, small, small_n)| {
                // derived from the salt so that the tuple stays within proptest's arity
                let lower_after = (salt % 5 == 0).then_some((salt >> 8) as u16 % 3000);
                let dropping = salt % 7 == 0 && n <= 70_000;
                // cancellation inside small (sequential) sorts is only reachable with small slices
                let n = if cancel_frac.is_some() && small { small_n } else { n };
                let n = if arrangement == 8 { n.min(8000) } else { n };
                SortCase { n, arrangement, salt, distinct, threads, cancel_at, total, nucleo_items, cancel_frac, lower_after, dropping }
            })
            .boxed()
    }
    fn run(&self, c: &SortCase) -> Outcome {
        let mut out = Outcome::default();
        gate::reset();
        *gate::PANIC_OWNER.lock() = "C18";
        let data = make_data(c);
        BUDGET.with(|b| b.set(None));
        if c.cancel_at.is_none() && c.cancel_frac.is_some() && c.arrangement != 8 {
            // dry run without cancellation to learn how many comparisons the sort makes on this input
            let dry = SortCase { cancel_frac: None, ..c.clone() };
            if run_sort(&dry, c.threads as usize, &data).is_ok() {
                BUDGET.with(|b| b.set(Some(LAST_CALLS.with(|l| l.get()).max(1))));
            }
        }
        let sorted_input = data.windows(2).all(|w| if c.total { w[0] <= w[1] } else { w[0].0 <= w[1].0 });
        out.nontrivial = c.n > 20 && (!sorted_input || c.arrangement == 8);
        let ctx = format!("{c:?}");
        match run_sort(c, c.threads as usize, &data) {
            Err(p) if p.starts_with("DROPPED") => out.fail("element-dropped-by-sort", format!("{p}; {ctx}")),
            Err(p) => out.fail("panic", format!("par_quicksort panicked: {p}; {ctx}")),
            Ok((v, reported_cancel, raised)) => {
                // permutation (ids are unique)
                let mut ids: Vec<u32> = v.iter().map(|e| e.1).collect();
                ids.sort_unstable();
                let perm_ok = ids.len() == data.len() && ids.iter().enumerate().all(|(i, &x)| x == i as u32) && (c.arrangement == 8 || v.iter().all(|e| data[e.1 as usize] == *e));
                if !perm_ok {
                    out.fail(if reported_cancel { "not-a-permutation-after-cancel" } else { "not-a-permutation" }, format!("the slice is not a permutation of its input any more (reported cancelled = {reported_cancel}); {ctx}"));
                }
                if !reported_cancel {
                    let sorted = v.windows(2).all(|w| if c.total && c.arrangement != 8 { w[0] <= w[1] } else { w[0].0 <= w[1].0 });
                    if !sorted {
                        let at = v.windows(2).position(|w| if c.total && c.arrangement != 8 { w[0] > w[1] } else { w[0].0 > w[1].0 });
                        out.fail(if raised { "unsorted-but-reported-complete-after-cancel" } else { "unsorted" }, format!("reported 'not cancelled' but the slice is not in non-decreasing order (first inversion at {at:?}); {ctx}"));
                    }
                }
                if !raised && reported_cancel {
                    out.fail("spurious-cancel", format!("reported 'cancelled' although the flag was never raised; {ctx}"));
                }
                if raised && reported_cancel {
                    out.label("cancelled");
                }
                if raised && !reported_cancel {
                    out.label("flag-raised-but-finished");
                }
                if c.total && c.arrangement != 8 && !reported_cancel && perm_ok {
                    let mut r = data.clone();
                    r.sort();
                    if v != r {
                        out.fail("differs-from-std-sort", format!("total order result differs from slice::sort; {ctx}"));
                    }
                    if effective_cancel(c).is_none() {
                        for t in [1usize, 2, 5] {
                            if t == c.threads as usize {
                                continue;
                            }
                            match run_sort(c, t, &data) {
                                Ok((v2, _, _)) if v2 == v => {}
                                Ok(_) => out.fail("thread-count-dependent", format!("result with {t} threads differs from {} threads; {ctx}", c.threads)),
                                Err(p) => out.fail("panic", format!("panicked with {t} threads: {p}; {ctx}")),
                            }
                        }
                    }
                }
            }
        }
        if c.arrangement == 8 && effective_cancel(c).is_none() {
            // the frozen values are an ordinary input on which pivot selection degenerates: sort them again
            // with a plain comparator, once with the ties of the unfrozen elements, once all distinct
            if let Ok((v, _, _)) = run_sort(c, 1, &data) {
                let frozen: Vec<u32> = {
                    let mut f = vec![0u32; c.n as usize];
                    for e in &v {
                        f[e.1 as usize] = if e.0 == GAS { c.n } else { e.0 };
                    }
                    f
                };
                let mut order: Vec<usize> = (0..frozen.len()).collect();
                order.sort_by_key(|&i| (frozen[i], i));
                let mut distinct = vec![0u32; frozen.len()];
                for (rank, &i) in order.iter().enumerate() {
                    distinct[i] = rank as u32;
                }
                for (flavour, keys) in [("ties", frozen), ("distinct", distinct)] {
                    let mut v: Vec<(u32, u32)> = keys.iter().enumerate().map(|(i, &k)| (k, i as u32)).collect();
                    let mut want = v.clone();
                    want.sort_by_key(|e| e.0);
                    let never = AtomicBool::new(false);
                    let p = pool(c.threads as usize);
                    match guarded(|| p.install(|| par_quicksort(&mut v, |a, b| a.0 < b.0, &never))) {
                        Err(m) => out.fail("panic", format!("par_quicksort panicked on the frozen adversarial input ({flavour}): {m}; {ctx}")),
                        Ok(cancelled) => {
                            let keys_sorted = v.windows(2).all(|w| w[0].0 <= w[1].0);
                            let mut a: Vec<(u32, u32)> = v.clone();
                            a.sort();
                            let mut b = want.clone();
                            b.sort();
                            if cancelled {
                                out.fail("spurious-cancel", format!("frozen adversarial input ({flavour}) reported cancelled; {ctx}"));
                            } else if !keys_sorted {
                                let at = v.windows(2).position(|w| w[0].0 > w[1].0);
                                out.fail("unsorted", format!("frozen adversarial input ({flavour}) is not sorted after the call (first inversion at {at:?}); {ctx}"));
                            } else if a != b {
                                out.fail("not-a-permutation", format!("frozen adversarial input ({flavour}) lost or duplicated elements; {ctx}"));
                            }
                        }
                    }
                }
                out.label("frozen-adversarial-input-replayed");
            }
        }
        for (s, name) in [(site::SORT_HEAPSORT, "branch:heapsort"), (site::SORT_PARTIAL_INSERTION, "branch:partial-insertion"), (site::SORT_PARTITION_EQUAL, "branch:partition-equal"), (site::SORT_BREAK_PATTERNS, "branch:break-patterns"), (site::SORT_JOIN, "branch:join"), (site::SORT_CANCEL_SEEN, "branch:cancel-seen"), (site::SORT_INSERTION, "branch:insertion")] {
            if gate::counters().get(&s).copied().unwrap_or(0) > 0 {
                out.label(name);
            }
        }
        if c.nucleo_items > 0 {
            if let Err((sig, msg)) = via_nucleo(c) {
                out.fail(sig, msg);
            }
            out.label("via-nucleo");
        }
        out
    }
}

/// the same items and pattern through Nucleo with 1/2/4/8 threads: identical, documented order
fn via_nucleo(c: &SortCase) -> Result<(), (String, String)> {
    use nucleo::pattern::{CaseMatching, Normalization};
    use nucleo::{Config, Nucleo};
    let n = c.nucleo_items;
    let texts: Vec<String> = (0..n)
        .map(|i| {
            let x = h(i, c.salt);
            let len = 1 + (x % if c.salt % 2 == 0 { 5 } else { 10 }) as usize;
            (0..len).map(|k| ["a", "b", "ab", "-a", " "][((x >> (3 * k)) % 5) as usize]).collect::<String>()
        })
        .collect();
    let mut reference: Option<Vec<(u32, u32)>> = None;
    // more worker threads than the machine has cores in a quarter of the cases (per-thread scratch state)
    let cores = std::thread::available_parallelism().map_or(8, |n| n.get());
    let mut counts = vec![1usize, 2, 4, 8];
    if c.salt % 4 == 1 {
        counts.push(2 * cores + 1);
    }
    let pattern = if c.salt % 2 == 0 { "a" } else { "aba b" };
    for threads in counts {
        let mut nuc: Nucleo<u32> = Nucleo::new(Config::DEFAULT, Arc::new(|| {}), Some(threads), 1);
        let inj = nuc.injector();
        for (i, t) in texts.iter().enumerate() {
            let t = t.clone();
            inj.push(i as u32, move |_, cols| cols[0] = t.as_str().into());
        }
        nuc.pattern.reparse(0, pattern, CaseMatching::Smart, Normalization::Smart, false);
        let mut guard = 0;
        loop {
            let st = nuc.tick(1000);
            guard += 1;
            if !st.running || guard > 200 {
                break;
            }
        }
        let got: Vec<(u32, u32)> = nuc.snapshot().matches().iter().map(|m| (m.score, m.idx)).collect();
        // documented order
        let mut m = nucleo::Matcher::new(Config::DEFAULT);
        let mut want: Vec<(u32, u32, u32)> = vec![];
        for (i, t) in texts.iter().enumerate() {
            let u: nucleo::Utf32String = t.as_str().into();
            if let Some(s) = nuc.pattern.column_pattern(0).score(u.slice(..), &mut m) {
                want.push((s, u.len() as u32, i as u32));
            }
        }
        want.sort_by(|a, b| b.0.cmp(&a.0).then(a.1.cmp(&b.1)).then(a.2.cmp(&b.2)));
        let want: Vec<(u32, u32)> = want.into_iter().map(|(s, _, i)| (s, i)).collect();
        if got != want {
            let at = got.iter().zip(want.iter()).position(|(a, b)| a != b);
            return Err(("nucleo-order".into(), format!("{threads} worker threads: snapshot order differs from (score desc, length asc, index asc) at position {at:?} ({} vs {} matches); {c:?}", got.len(), want.len())));
        }
        if let Some(r) = &reference {
            if *r != got {
                return Err(("nucleo-thread-count".into(), format!("match order differs between thread counts; {c:?}")));
            }
        }
        reference = Some(got);
    }
    Ok(())
}
