//! The history machine: a generated operation list is interpreted against one `Nucleo<Tracked>`
//! and against a model; after every tick / restart the oracle sets of C06, C12, C19, C20 run on
//! the observed snapshot, and C07 runs at quiescence. Schedules are owned by the driver: writers
//! are held inside their fill callback, the run and the tick are held at hook points.

use crate::gate::{self, hsite, Waited};
use crate::payload::{self, Tracked};
use nucleo::pattern::{CaseMatching, MultiPattern, Normalization};
use nucleo::verif::site;
use nucleo::{Injector, Matcher, Nucleo, Utf32String};
use parking_lot::{Condvar, Mutex};
use proptest::prelude::*;
use serde::{Deserialize, Serialize};
use std::collections::{HashMap, HashSet};
use std::sync::Arc;
use std::time::Duration;
use vcommon::oracle::Cfg;

#[derive(Clone, Debug, Serialize, Deserialize, Hash, PartialEq, Eq)]
pub enum Edit {
    Append(u8),
    DeleteLast,
    Replace(u16),
    Clear,
}

#[derive(Clone, Debug, Serialize, Deserialize, Hash, PartialEq, Eq)]
pub enum Op {
    Push { inj: u8, text: u16 },
    /// a writer thread pushes and blocks inside its fill callback until released
    PushHeld { inj: u8, text: u16 },
    /// n plain pushes (bulk, to cross bucket boundaries / reach positions)
    Bulk { inj: u8, n: u16, text: u16 },
    /// a writer thread extends by n items, blocking inside the fill callback of item `hold_at` (if < n)
    Extend { inj: u8, n: u8, text: u16, hold_at: u8 },
    ReleaseWriter { sel: u8 },
    Reparse { col: u8, edit: Edit },
    Tick { timeout: u8 },
    Restart { clear: bool },
    NewInjector,
    CloneInjector { sel: u8 },
    DropInjector { sel: u8, on_thread: bool },
    /// future runs park at this phase (index into gate::RUN_SITES)
    HoldRunAt { phase: u8 },
    AdvanceRunTo { phase: u8 },
    ReleaseRun,
    /// hold the scoring of item `idx` inside the parallel scan (cancel mid-scan)
    HoldScore { idx: u16 },
    ReleaseScore,
    /// old-stream injector keeps pushing (only meaningful after a restart)
    PushOld { sel: u8, text: u16 },
    Sleep { ms: u8 },
    /// tick(10) while a helper thread releases the held run after `delay_ms`: the run finishes
    /// during the tick's time-out
    TickWhileReleasing { delay_ms: u8 },
    /// a free-running injector thread: pushes / extends n items with short pauses, concurrently with
    /// the following operations (joined at the end)
    BgInjector { inj: u8, n: u8, pause: u8, text: u16 },
    /// the same column text is parsed again with other CaseMatching / Normalization settings
    /// (append = false), which then stay in force for that column
    ReparseMode { col: u8, case: u8, norm: u8 },
    /// Nucleo::update_config with the configuration the history runs with (blocks until a run in
    /// progress has finished, so nothing is held meanwhile)
    UpdateConfig,
    /// handles[dst].clone_from(&handles[src])
    CloneFromInjector { dst: u8, src: u8 },
    /// n restarts in a row without a tick in between (counters that wrap)
    RestartBurst { n: u16, clear: bool },
    /// from now on the notify callback takes `ms` milliseconds when it is called by a worker thread (a slow
    /// event-loop wake-up; the worker calls it while it holds the worker lock)
    SlowNotify { ms: u8 },
    /// lift the hold of the run without waiting for it to finish
    ReleaseRunNoWait,
    /// the column text (plus a trailing space) is parsed again with stricter settings (Ignore -> Smart ->
    /// Respect, normalization Smart -> Never) and `append = true`: every new match is an old match (skipped when the
    /// text contains a negation marker)
    ReparseStricter { col: u8 },
}

#[derive(Clone, Debug, Serialize, Deserialize, Hash)]
pub struct History {
    pub threads: u8,
    pub columns: u8,
    pub cfg: Cfg,
    /// per column (CaseMatching, Normalization) selector, fixed for the history
    pub modes: Vec<(u8, u8)>,
    pub ops: Vec<Op>,
    /// end with: release writers, drop injectors, tick until not running, compare from scratch
    pub quiesce: bool,
    /// no waiting for runs between ops (non-deterministic interleavings, schedule-independent oracles)
    pub free_running: bool,
}

#[derive(Debug, Clone)]
pub struct Finding {
    pub prop: &'static str,
    pub sig: String,
    pub msg: String,
}

#[derive(Default, Debug)]
pub struct RunReport {
    pub findings: Vec<Finding>,
    pub labels: Vec<&'static str>,
    pub inconclusive: Option<String>,
    pub ticks: u32,
}
impl RunReport {
    fn label(&mut self, l: &'static str) {
        if !self.labels.contains(&l) {
            self.labels.push(l);
        }
    }
    fn find(&mut self, prop: &'static str, sig: impl Into<String>, msg: impl Into<String>) {
        let sig = sig.into();
        if !self.findings.iter().any(|f| f.prop == prop && f.sig == sig) {
            self.findings.push(Finding { prop, sig, msg: msg.into() });
        }
    }
}

pub const PATTERN_ALPHABET: &[char] = &['a', 'b', 'c', 'A', 'B', ' ', '!', '^', '$', '\'', '\\', 'é', 'σ'];

/// item column text from a selector: short words over a small alphabet so that patterns match
/// proper subsets and ties in score and length occur
/// milliseconds the notify callback sleeps when a worker thread calls it (0 = not at all)
static SLOW_NOTIFY_MS: std::sync::atomic::AtomicU64 = std::sync::atomic::AtomicU64::new(0);

pub fn item_text(sel: u16, col: usize) -> String {
    const W: &[&str] = &["a", "b", "c", "ab", "ba", "A", "B", "-", " ", "é", "σ", "a$", "\\", "c ", "x", "aa"];
    let mut x = (sel as u32).wrapping_mul(2654435761).rotate_left(col as u32 * 7 + 3) ^ (col as u32 * 0x9E37);
    let n = 1 + (x % 4) as usize;
    let mut s = String::new();
    for _ in 0..n {
        x = x.wrapping_mul(1664525).wrapping_add(1013904223);
        s.push_str(W[(x >> 24) as usize % W.len()]);
    }
    s
}
pub fn replace_text(sel: u16) -> String {
    const P: &[&str] = &["a", "b", "ab", "a b", "!a", "^a", "a$", "'ab", "c", "B", "é", "a\\ b", "!b a", "", "ba", "σ"];
    // (a second table behind the first so that stored cases keep their meaning)
    const P2: &[&str] = &["Ab c", "A b", "é a", "aB Ab", "σ b", "^ a b", "! a"];
    if sel >= 65000 {
        return P2[(sel - 65000) as usize % P2.len()].to_string();
    }
    P[sel as usize % P.len()].to_string()
}

fn case_of(c: u8) -> CaseMatching {
    match c % 3 {
        0 => CaseMatching::Respect,
        1 => CaseMatching::Ignore,
        _ => CaseMatching::Smart,
    }
}
fn norm_of(n: u8) -> Normalization {
    if n % 2 == 0 {
        Normalization::Never
    } else {
        Normalization::Smart
    }
}

struct WriterGate {
    entered: Mutex<bool>,
    released: Mutex<bool>,
    cv: Condvar,
    cv_rel: Condvar,
}
impl WriterGate {
    fn new() -> Arc<WriterGate> {
        Arc::new(WriterGate { entered: Mutex::new(false), released: Mutex::new(false), cv: Condvar::new(), cv_rel: Condvar::new() })
    }
    fn enter_and_wait(&self) {
        *self.entered.lock() = true;
        self.cv.notify_all();
        let mut r = self.released.lock();
        let t0 = std::time::Instant::now();
        while !*r && t0.elapsed() < Duration::from_secs(120) {
            self.cv_rel.wait_for(&mut r, Duration::from_millis(50));
        }
    }
    fn wait_entered(&self) -> bool {
        let mut e = self.entered.lock();
        let t0 = std::time::Instant::now();
        while !*e {
            if t0.elapsed() > gate::WAIT_LIMIT {
                return false;
            }
            self.cv.wait_for(&mut e, Duration::from_millis(10));
        }
        true
    }
    fn release(&self) {
        *self.released.lock() = true;
        self.cv_rel.notify_all();
    }
}

struct Writer {
    gate: Arc<WriterGate>,
    handle: Option<std::thread::JoinHandle<()>>,
    held: bool,
    stream: u32,
    /// ids this writer injects
    ids: Vec<u64>,
    /// index of the item it is held at (if held)
    held_idx: u32,
}

struct ItemInfo {
    stream: u32,
    texts: Vec<String>,
    /// push/extend call returned (ledger for C19)
    returned: bool,
}

#[derive(Clone, Debug, PartialEq, Eq)]
pub struct Obs {
    pub matches: Vec<(u32, u32)>,
    pub item_count: u32,
    pub atoms: Vec<String>,
    /// stream tags of the matched items
    pub streams: Vec<u32>,
}

struct Handle {
    inj: Injector<Tracked>,
    stream: u32,
}

pub struct Machine<'h> {
    h: &'h History,
    nuc: Option<Nucleo<Tracked>>,
    cfg: nucleo::Config,
    stream: u32,
    handles: Vec<Handle>,
    writers: Vec<Writer>,
    items: Arc<Mutex<HashMap<u64, ItemInfo>>>,
    /// reserved index count per stream (upper bound for scans)
    reserved: HashMap<u32, u32>,
    texts: Vec<String>,
    /// (CaseMatching, Normalization) selector currently in force per column
    modes: Vec<(u8, u8)>,
    rep: RunReport,
    /// stream the snapshot belonged to at the last observation / before the last restart(false)
    pending_restart_obs: Option<Obs>,
    snap_stream_switched: bool,
    had_cancel: bool,
    had_restart: bool,
    had_append: bool,
    saw_inflight_then_published: bool,
    notify_count: Arc<std::sync::atomic::AtomicU64>,
    /// upper bound for index scans: number of items ever created (any stream)
    total_created: Arc<std::sync::atomic::AtomicU32>,
    /// free-running injector threads (stream, handle)
    bg: Vec<(u32, std::thread::JoinHandle<()>)>,
}

fn fill_cols(texts: &[String], cols: &mut [Utf32String]) {
    for (c, t) in cols.iter_mut().zip(texts) {
        *c = t.as_str().into();
    }
}

impl<'h> Machine<'h> {
    pub fn new(h: &'h History) -> Machine<'h> {
        gate::reset();
        payload::reset_ledger();
        let cfg = h.cfg.to_config();
        SLOW_NOTIFY_MS.store(0, std::sync::atomic::Ordering::Relaxed);
        let notify_count = Arc::new(std::sync::atomic::AtomicU64::new(0));
        let nc = notify_count.clone();
        let nuc = Nucleo::new(
            cfg.clone(),
            Arc::new(move || {
                nc.fetch_add(1, std::sync::atomic::Ordering::SeqCst);
                gate::log_event(hsite::NOTIFY, 0);
                let ms = SLOW_NOTIFY_MS.load(std::sync::atomic::Ordering::Relaxed);
                if ms > 0 && std::thread::current().name().map_or(false, |n| n.starts_with("nucleo worker")) {
                    std::thread::sleep(Duration::from_millis(ms));
                }
            }),
            Some(h.threads.max(1) as usize),
            h.columns.max(1) as u32,
        );
        let mut m = Machine {
            h,
            nuc: Some(nuc),
            cfg,
            stream: 0,
            handles: vec![],
            writers: vec![],
            items: Arc::new(Mutex::new(HashMap::new())),
            reserved: HashMap::new(),
            texts: vec![String::new(); h.columns.max(1) as usize],
            modes: (0..h.columns.max(1) as usize).map(|c| h.modes.get(c).copied().unwrap_or((2, 1))).collect(),
            rep: RunReport::default(),
            pending_restart_obs: None,
            snap_stream_switched: true,
            had_cancel: false,
            had_restart: false,
            had_append: false,
            saw_inflight_then_published: false,
            notify_count,
            total_created: Arc::new(std::sync::atomic::AtomicU32::new(0)),
            bg: vec![],
        };
        let inj = m.nuc.as_ref().unwrap().injector();
        m.handles.push(Handle { inj, stream: 0 });
        m
    }

    fn cols(&self) -> usize {
        self.h.columns.max(1) as usize
    }

    fn new_item(&mut self, stream: u32, text: u16) -> (Tracked, Vec<String>) {
        self.total_created.fetch_add(1, std::sync::atomic::Ordering::SeqCst);
        let t = Tracked::new(stream);
        let texts: Vec<String> = (0..self.cols()).map(|c| item_text(text, c)).collect();
        self.items.lock().insert(t.id, ItemInfo { stream, texts: texts.clone(), returned: false });
        (t, texts)
    }

    fn pick_handle(&self, sel: u8, current_only: bool) -> Option<usize> {
        let cands: Vec<usize> = self.handles.iter().enumerate().filter(|(_, h)| !current_only || h.stream == self.stream).map(|(i, _)| i).collect();
        if cands.is_empty() {
            None
        } else {
            Some(cands[sel as usize % cands.len()])
        }
    }

    fn observe(&mut self) -> Option<Obs> {
        let nuc = self.nuc.as_ref().unwrap();
        let s = nuc.snapshot();
        let matches: Vec<(u32, u32)> = s.matches().iter().map(|m| (m.score, m.idx)).collect();
        let atoms: Vec<String> = (0..self.cols()).map(|c| format!("{:?}", s.pattern().column_pattern(c).atoms)).collect();
        let mut streams = vec![];
        for &(_, idx) in &matches {
            if let Some(it) = s.get_item(idx) {
                if !streams.contains(&it.data.stream) {
                    streams.push(it.data.stream);
                }
            }
        }
        Some(Obs { matches, item_count: s.item_count(), atoms, streams })
    }

    /// C06: the snapshot is safe to read and internally consistent
    fn check_snapshot(&mut self, when: &str) {
        if let Some(idx) = gate::fatal() {
            self.rep.find("C06", "uninit-item-read", format!("{when}: the library dereferenced the uninitialised entry {idx} (get_unchecked on an item that was never published)"));
            return;
        }
        let cols = self.cols();
        let cfg = self.cfg.clone();
        let nuc = self.nuc.as_ref().unwrap();
        let s = nuc.snapshot();
        let mut seen = HashSet::new();
        let mut stream_tags: HashSet<u32> = HashSet::new();
        let mut all_some = true;
        let mut matcher = Matcher::new(cfg);
        let mut prev: Option<(u32, u32, u32)> = None;
        let pattern_empty = s.pattern().is_empty();
        let mut findings: Vec<(&'static str, String, String)> = vec![];
        for (n, m) in s.matches().iter().enumerate() {
            if !seen.insert(m.idx) {
                findings.push(("C06", "duplicate-match".into(), format!("{when}: item index {} appears twice in the snapshot", m.idx)));
            }
            let Some(it) = s.get_item(m.idx) else {
                all_some = false;
                findings.push(("C06", "match-refers-to-uninitialised-item".into(), format!("{when}: match #{n} refers to index {} which is not an initialised item of the snapshot's stream (get_item -> None); matches={:?}", m.idx, s.matches().iter().map(|m| (m.score, m.idx)).take(60).collect::<Vec<_>>())));
                continue;
            };
            if !it.data.intact() {
                findings.push(("C06", "payload-canary".into(), format!("{when}: item {} payload canary damaged (uninitialised or dropped memory)", m.idx)));
                continue;
            }
            stream_tags.insert(it.data.stream);
            if it.matcher_columns.len() != cols {
                findings.push(("C06", "column-count".into(), format!("{when}: item {} has {} columns", m.idx, it.matcher_columns.len())));
            }
            // score
            let want = s.pattern().score(it.matcher_columns, &mut matcher);
            if want != Some(m.score) {
                findings.push(("C06", "score-mismatch".into(), format!("{when}: match idx {} has score {} but the snapshot pattern scores that item {:?}; columns {:?}", m.idx, m.score, want, it.matcher_columns)));
            }
            // order
            let len: u32 = it.matcher_columns.iter().map(|c| c.len() as u32).sum();
            if let Some((ps, pl, pi)) = prev {
                let ok = if pattern_empty { pi < m.idx } else { ps > m.score || (ps == m.score && (pl < len || (pl == len && pi < m.idx))) };
                if !ok {
                    findings.push(("C06", "order".into(), format!("{when}: matches #{} (score {ps}, len {pl}, idx {pi}) and #{n} (score {}, len {len}, idx {}) are out of order", n - 1, m.score, m.idx)));
                }
            }
            prev = Some((m.score, len, m.idx));
        }
        if stream_tags.len() > 1 {
            findings.push(("C12", "mixed-streams".into(), format!("{when}: the snapshot mixes items of streams {stream_tags:?}")));
        }
        // matched_items / get_matched_item agree (only when every index is initialised)
        if all_some {
            let n = s.matched_item_count();
            let ids_a: Vec<u64> = s.matched_items(0..n).map(|i| i.data.id).collect();
            let ids_b: Vec<u64> = (0..n).filter_map(|k| s.get_matched_item(k).map(|i| i.data.id)).collect();
            let ids_c: Vec<u64> = s.matches().iter().filter_map(|m| s.get_item(m.idx).map(|i| i.data.id)).collect();
            if ids_a != ids_c || ids_b != ids_c || s.get_matched_item(n).is_some() {
                findings.push(("C06", "accessors-disagree".into(), format!("{when}: matched_items / get_matched_item / get_item disagree")));
            }
            // processed-set clause: the matches are exactly the matching items among a set of
            // processed items of size item_count
            let bound = self.total_created.load(std::sync::atomic::Ordering::SeqCst) + 64;
            let mut published = 0u32;
            let mut nonmatching = 0u32;
            for idx in 0..bound {
                if let Some(it) = s.get_item(idx) {
                    published += 1;
                    stream_tags.insert(it.data.stream);
                    if s.pattern().score(it.matcher_columns, &mut matcher).is_none() {
                        nonmatching += 1;
                    }
                }
            }
            let mcount = s.matches().len() as u32;
            if s.item_count() < mcount || s.item_count() > mcount + nonmatching {
                findings.push(("C06", "item-count-inconsistent".into(), format!("{when}: item_count {} but {} matches and only {} published non-matching items ({} published): no processed set of that size has exactly these matches", s.item_count(), mcount, nonmatching, published)));
            }
            if stream_tags.len() > 1 {
                findings.push(("C12", "mixed-streams".into(), format!("{when}: items of streams {stream_tags:?} are reachable through one snapshot")));
            }
        }
        for (p, s, m) in findings {
            self.rep.find(p, s, m);
        }
    }

    /// expected number of live injectors of the current stream
    fn check_injectors(&mut self, when: &str) {
        let base = self.handles.iter().filter(|h| h.stream == self.stream).count() + self.writers.iter().filter(|w| w.handle.is_some() && w.stream == self.stream).count();
        // a free-running injector thread owns a clone until it finishes (unknown to the driver)
        let bg_max = self.bg.iter().filter(|(s, h)| *s == self.stream && !h.is_finished()).count();
        let bg_all = self.bg.iter().filter(|(s, _)| *s == self.stream).count();
        let got = self.nuc.as_ref().unwrap().active_injectors();
        if got < base || got > base + bg_all.max(bg_max) {
            self.rep.find("C20", "active-injectors", format!("{when}: active_injectors() = {got}, live injector handles of the current stream = {base} (+ up to {bg_all} free-running injector threads)"));
        }
    }

    fn reap_writers(&mut self) {
        for w in self.writers.iter_mut() {
            if !w.held {
                if let Some(h) = w.handle.take() {
                    let _ = h.join();
                }
            }
        }
    }

    fn wait_after_spawn(&mut self) {
        if self.h.free_running {
            return;
        }
        let hold = gate::ctl().st.lock().run_hold;
        let (started, _) = gate::runs();
        let r = if hold != 0 { gate::wait_run_parked_or_ended(hold, started) } else { gate::wait_runs_idle() };
        match r {
            Waited::Timeout => self.rep.inconclusive = Some("timed out waiting for the background run".into()),
            Waited::Parked => self.rep.label("run-held-at-phase"),
            _ => {}
        }
    }

    fn do_tick(&mut self, timeout: u64, when: &str) -> Option<nucleo::Status> {
        let before = self.observe()?;
        let cur_atoms: Vec<String> = (0..self.cols()).map(|c| format!("{:?}", self.nuc.as_ref().unwrap().pattern.column_pattern(c).atoms)).collect();
        // ledger: pushes of the current stream whose call had returned before the tick began
        let completed_before: u32 = self.items.lock().values().filter(|i| i.stream == self.stream && i.returned).count() as u32;
        // order in-flight pushes of two pool threads adversarially when two writers are held
        {
            let held: Vec<u64> = gate::take_log().iter().filter(|e| e.site == hsite::FILL_ENTER).map(|e| e.arg).collect();
            let _ = held;
        }
        gate::log_event(hsite::TICK_BEGIN, timeout);
        let (runs_before, _) = gate::runs();
        let status = {
            let nuc = self.nuc.as_mut().unwrap();
            match vcommon::driver::guarded(|| nuc.tick(timeout)) {
                Ok(s) => s,
                Err(p) => {
                    self.rep.find("C06", "tick-panic", format!("{when}: tick panicked: {p}"));
                    return None;
                }
            }
        };
        gate::log_event(hsite::TICK_END, (status.changed as u64) | ((status.running as u64) << 1));
        self.rep.ticks += 1;
        let (runs_after, _) = gate::runs();
        let _ = (runs_before, runs_after);
        self.wait_after_spawn();
        if gate::fatal().is_some() {
            self.check_snapshot(when);
            return None;
        }
        let after = self.observe()?;
        // ---- C19 -------------------------------------------------------------------------
        if !status.changed && before != after {
            self.rep.find("C19", "changed-false-but-differs", format!("{when}: tick returned changed=false but the snapshot differs: before {} matches / item_count {} / atoms {:?}, after {} matches / item_count {} / atoms {:?}", before.matches.len(), before.item_count, before.atoms, after.matches.len(), after.item_count, after.atoms));
        }
        if !status.running {
            if after.item_count < completed_before {
                self.rep.find("C19", "running-false-but-items-missing", format!("{when}: tick returned running=false but item_count {} < {} pushes of the current stream that had completed before the call", after.item_count, completed_before));
            }
            if after.atoms != cur_atoms {
                self.rep.find("C19", "running-false-but-stale-pattern", format!("{when}: tick returned running=false but the snapshot pattern {:?} is not the matcher's current pattern {:?}", after.atoms, cur_atoms));
            }
            if after.streams.iter().any(|&s| s != self.stream) {
                self.rep.find("C19", "running-false-but-old-stream", format!("{when}: tick returned running=false but the snapshot holds items of stream {:?}, current stream is {}", after.streams, self.stream));
                // the same observation read as C12: the run over the new stream has completed (the matcher is
                // idle), so the snapshot may no longer be the one from before the restart
                self.rep.find("C12", "old-stream-snapshot-after-new-run-completed", format!("{when}: the matcher is idle after the restart (tick returned running=false) but the snapshot still shows items of stream {:?}; current stream is {}", after.streams, self.stream));
            }
            if self.had_cancel || self.had_restart {
                self.rep.label("not-running-after-cancel-or-restart");
            }
        }
        if !status.changed && status.running {
            self.rep.label("unchanged-while-running");
        }
        if status.running && self.had_restart {
            self.rep.label("running-tick-after-restart");
        }
        // ---- C12 -------------------------------------------------------------------------
        self.check_restart_isolation(&after, when);
        // ---- C06 -------------------------------------------------------------------------
        self.check_snapshot(when);
        self.check_injectors(when);
        Some(status)
    }

    fn check_restart_isolation(&mut self, after: &Obs, when: &str) {
        if let Some(pre) = self.pending_restart_obs.clone() {
            // snapshot stays exactly as it was until it switches to the new stream
            let is_new = after.streams.iter().all(|&s| s == self.stream) && (after.matches.is_empty() || !after.streams.is_empty());
            if *after == pre {
                // unchanged: fine (an empty old snapshot is also a valid new one)
            } else if is_new {
                self.pending_restart_obs = None;
                self.snap_stream_switched = true;
            } else {
                self.rep.find("C12", "old-snapshot-changed-before-switch", format!("{when}: after restart(false) the snapshot changed although it does not belong to the new stream yet: streams {:?} (current {}), {} matches / item_count {} (before the restart: {} matches / item_count {})", after.streams, self.stream, after.matches.len(), after.item_count, pre.matches.len(), pre.item_count));
            }
        } else if after.streams.iter().any(|&s| s != self.stream) {
            self.rep.find("C12", "old-stream-item-in-snapshot", format!("{when}: the snapshot contains items of stream {:?} but the current stream is {}", after.streams, self.stream));
        }
    }

    fn spawn_writer(&mut self, handle_idx: usize, n: usize, text: u16, hold_at: usize) {
        let stream = self.handles[handle_idx].stream;
        let inj = self.handles[handle_idx].inj.clone();
        let gate_ = WriterGate::new();
        let mut payloads = vec![];
        let mut ids = vec![];
        for k in 0..n {
            let (t, texts) = self.new_item(stream, text.wrapping_add(k as u16 * 31));
            ids.push(t.id);
            payloads.push((t, texts));
        }
        let held_idx = self.reserved.get(&stream).copied().unwrap_or(0) + hold_at.min(n) as u32;
        *self.reserved.entry(stream).or_insert(0) += n as u32;
        let g = gate_.clone();
        let items = self.items.clone();
        let single = n == 1;
        let handle = std::thread::spawn(move || {
            let texts_by_id: HashMap<u64, Vec<String>> = payloads.iter().map(|(t, x)| (t.id, x.clone())).collect();
            let hold_id = payloads.get(hold_at).map(|(t, _)| t.id);
            let ids: Vec<u64> = payloads.iter().map(|(t, _)| t.id).collect();
            let fill = |t: &Tracked, cols: &mut [Utf32String]| {
                fill_cols(&texts_by_id[&t.id], cols);
                gate::log_event(hsite::FILL_ENTER, t.id);
                if Some(t.id) == hold_id {
                    g.enter_and_wait();
                }
                gate::log_event(hsite::FILL_LEAVE, t.id);
            };
            if single {
                let (t, _) = payloads.into_iter().next().unwrap();
                let id = t.id;
                let idx = inj.push(t, fill);
                gate::log_event(hsite::PUSH_RETURNED, id << 32 | idx as u64);
            } else {
                let v: Vec<Tracked> = payloads.into_iter().map(|(t, _)| t).collect();
                inj.extend(v.into_iter(), fill);
                gate::log_event(hsite::EXTEND_RETURNED, 0);
            }
            let mut it = items.lock();
            for id in ids {
                if let Some(i) = it.get_mut(&id) {
                    i.returned = true;
                }
            }
            // make sure a writer that never blocks still counts as entered
            *g.entered.lock() = true;
            g.cv.notify_all();
            drop(inj);
        });
        let held = hold_at < n;
        if !gate_.wait_entered() {
            self.rep.inconclusive = Some("writer thread did not reach its fill callback".into());
        }
        self.writers.push(Writer { gate: gate_, handle: Some(handle), held, stream, ids, held_idx });
        if held {
            self.rep.label("writer-held-in-flight");
        } else {
            self.reap_writers();
        }
    }

    fn release_writer(&mut self, k: usize) {
        let w = &mut self.writers[k];
        w.held = false;
        w.gate.release();
        if let Some(h) = w.handle.take() {
            let _ = h.join();
        }
        let _ = &w.ids;
    }

    fn apply_edit(&mut self, col: usize, edit: &Edit) {
        let old = self.texts[col].clone();
        let new = match edit {
            Edit::Append(c) => {
                let mut s = old.clone();
                s.push(PATTERN_ALPHABET[*c as usize % PATTERN_ALPHABET.len()]);
                s
            }
            Edit::DeleteLast => {
                let mut s = old.clone();
                s.pop();
                s
            }
            Edit::Replace(sel) => replace_text(*sel),
            Edit::Clear => String::new(),
        };
        // the append flag is set exactly when the previous text is a prefix of the new text
        let append = new.starts_with(&old);
        let (cm, nm) = self.modes[col];
        self.nuc.as_mut().unwrap().pattern.reparse(col, &new, case_of(cm), norm_of(nm), append);
        if append && !old.is_empty() && new != old {
            self.had_append = true;
            self.rep.label("append-update");
        }
        self.texts[col] = new;
        self.had_cancel = true;
    }

    pub fn run(mut self) -> RunReport {
        let ops = self.h.ops.clone();
        for (k, op) in ops.iter().enumerate() {
            if self.rep.inconclusive.is_some() || gate::fatal().is_some() {
                break;
            }
            let when = format!("after op #{k} {op:?}");
            match op {
                Op::Push { inj, text } => {
                    if let Some(hi) = self.pick_handle(*inj, true) {
                        let stream = self.handles[hi].stream;
                        let (t, texts) = self.new_item(stream, *text);
                        let id = t.id;
                        *self.reserved.entry(stream).or_insert(0) += 1;
                        let idx = self.handles[hi].inj.push(t, |_, cols| fill_cols(&texts, cols));
                        gate::log_event(hsite::PUSH_RETURNED, id << 32 | idx as u64);
                        self.items.lock().get_mut(&id).unwrap().returned = true;
                    }
                }
                Op::Bulk { inj, n, text } => {
                    if let Some(hi) = self.pick_handle(*inj, true) {
                        let stream = self.handles[hi].stream;
                        for j in 0..*n {
                            let (t, texts) = self.new_item(stream, text.wrapping_add(j * 7));
                            let id = t.id;
                            *self.reserved.entry(stream).or_insert(0) += 1;
                            self.handles[hi].inj.push(t, |_, cols| fill_cols(&texts, cols));
                            self.items.lock().get_mut(&id).unwrap().returned = true;
                        }
                    }
                }
                Op::PushOld { sel, text } => {
                    let olds: Vec<usize> = self.handles.iter().enumerate().filter(|(_, h)| h.stream != self.stream).map(|(i, _)| i).collect();
                    if !olds.is_empty() {
                        let hi = olds[*sel as usize % olds.len()];
                        let stream = self.handles[hi].stream;
                        let (t, texts) = self.new_item(stream, *text);
                        let id = t.id;
                        *self.reserved.entry(stream).or_insert(0) += 1;
                        let idx = self.handles[hi].inj.push(t, |_, cols| fill_cols(&texts, cols));
                        let ok = self.handles[hi].inj.get(idx).map_or(false, |i| i.data.id == id);
                        if !ok {
                            self.rep.find("C12", "old-injector-broken", format!("{when}: an injector created before the restart no longer stores / returns its items"));
                        }
                        self.items.lock().get_mut(&id).unwrap().returned = true;
                        self.rep.label("old-injector-pushes-after-restart");
                    }
                }
                Op::PushHeld { inj, text } => {
                    if self.writers.iter().filter(|w| w.held).count() < 3 {
                        if let Some(hi) = self.pick_handle(*inj, false) {
                            self.spawn_writer(hi, 1, *text, 0);
                        }
                    }
                }
                Op::Extend { inj, n, text, hold_at } => {
                    if self.writers.iter().filter(|w| w.held).count() < 3 {
                        if let Some(hi) = self.pick_handle(*inj, false) {
                            let n = (*n as usize).max(2);
                            self.spawn_writer(hi, n, *text, *hold_at as usize);
                        }
                    }
                }
                Op::ReleaseWriter { sel } => {
                    let held: Vec<usize> = self.writers.iter().enumerate().filter(|(_, w)| w.held).map(|(i, _)| i).collect();
                    if !held.is_empty() {
                        self.release_writer(held[*sel as usize % held.len()]);
                        self.saw_inflight_then_published = true;
                    }
                }
                Op::Reparse { col, edit } => {
                    let col = *col as usize % self.cols();
                    self.apply_edit(col, edit);
                }
                Op::SlowNotify { ms } => {
                    SLOW_NOTIFY_MS.store((*ms % 40) as u64, std::sync::atomic::Ordering::Relaxed);
                    self.rep.label("slow-notify-callback");
                }
                Op::ReleaseRunNoWait => {
                    gate::release_run();
                    gate::release_score();
                }
                Op::ReparseStricter { col } => {
                    let col = *col as usize % self.cols();
                    let (cm, nm) = self.modes[col];
                    // one dimension at a time: case matching first, then normalization
                    let stricter = match cm % 3 {
                        1 => (2, nm % 2),
                        2 => (0, nm % 2),
                        _ => (0, 0u8),
                    };
                    // (a negated atom that gets stricter lets MORE items through: the append hint would be a lie)
                    if stricter != (cm % 3, nm % 2) && !self.texts[col].contains('!') {
                        let mut text = self.texts[col].clone();
                        if !text.ends_with('\\') {
                            text.push(' ');
                        }
                        self.modes[col] = stricter;
                        self.nuc.as_mut().unwrap().pattern.reparse(col, &text, case_of(stricter.0), norm_of(stricter.1), true);
                        self.texts[col] = text;
                        self.had_cancel = true;
                        self.rep.label("append-with-stricter-settings");
                    }
                }
                Op::ReparseMode { col, case, norm } => {
                    let col = *col as usize % self.cols();
                    self.modes[col] = (*case % 3, *norm % 2);
                    let text = self.texts[col].clone();
                    self.nuc.as_mut().unwrap().pattern.reparse(col, &text, case_of(*case % 3), norm_of(*norm % 2), false);
                    self.had_cancel = true;
                    self.rep.label("reparse-with-other-settings");
                }
                Op::Tick { timeout } => {
                    // adversarial order of in-flight pushes when >= 2 writers are held
                    let held_count = self.writers.iter().filter(|w| w.held).count();
                    if held_count >= 2 {
                        let max_idx = self.writers.iter().filter(|w| w.held && w.stream == self.stream).map(|w| w.held_idx as u64).max();
                        let mut st = gate::ctl().st.lock();
                        st.inflight_order = max_idx;
                        st.inflight_seen.clear();
                        drop(st);
                        self.rep.label("two-writers-in-flight");
                    } else {
                        gate::ctl().st.lock().inflight_order = None;
                    }
                    let t = match timeout % 3 {
                        0 => 0,
                        1 => 1,
                        _ => 10,
                    };
                    self.do_tick(t, &when);
                }
                Op::Restart { clear } => {
                    let before = self.observe();
                    self.nuc.as_mut().unwrap().restart(*clear);
                    gate::log_event(hsite::RESTART, *clear as u64);
                    self.stream += 1;
                    self.had_restart = true;
                    self.had_cancel = true;
                    self.rep.label(if *clear { "restart(clear)" } else { "restart(keep)" });
                    if !self.handles.is_empty() {
                        self.rep.label("handle-outlives-restart");
                    }
                    let (started, ended) = gate::runs();
                    if started > ended {
                        self.rep.label("restart-while-run-in-progress");
                    }
                    let after = self.observe();
                    if let (Some(b), Some(a)) = (before, after) {
                        if *clear {
                            if a.item_count != 0 || !a.matches.is_empty() {
                                self.rep.find("C12", "clear-not-immediate", format!("{when}: restart(true) left {} matches / item_count {} in the snapshot", a.matches.len(), a.item_count));
                            }
                            self.pending_restart_obs = None;
                        } else {
                            if a != b {
                                self.rep.find("C12", "restart-changed-snapshot", format!("{when}: restart(false) changed the snapshot immediately"));
                            }
                            if self.pending_restart_obs.is_none() {
                                self.pending_restart_obs = Some(b);
                            }
                        }
                    }
                    self.check_snapshot(&when);
                    self.check_injectors(&when);
                }
                Op::NewInjector => {
                    if self.handles.len() < 8 {
                        let inj = self.nuc.as_ref().unwrap().injector();
                        self.handles.push(Handle { inj, stream: self.stream });
                    }
                    self.check_injectors(&when);
                }
                Op::CloneInjector { sel } => {
                    if self.handles.len() < 8 {
                        if let Some(hi) = self.pick_handle(*sel, false) {
                            let c = Handle { inj: self.handles[hi].inj.clone(), stream: self.handles[hi].stream };
                            self.handles.push(c);
                        }
                    }
                    self.check_injectors(&when);
                }
                Op::RestartBurst { n, clear } => {
                    let before = self.observe();
                    for _ in 0..*n {
                        self.nuc.as_mut().unwrap().restart(*clear);
                        self.stream += 1;
                    }
                    gate::log_event(hsite::RESTART, *clear as u64);
                    self.had_restart = true;
                    self.had_cancel = true;
                    self.rep.label("restart-burst");
                    if *clear {
                        self.pending_restart_obs = None;
                    } else if self.pending_restart_obs.is_none() {
                        self.pending_restart_obs = before;
                    }
                    self.check_injectors(&when);
                }
                Op::CloneFromInjector { dst, src } => {
                    if let (Some(d), Some(sr)) = (self.pick_handle(*dst, false), self.pick_handle(*src, false)) {
                        if d != sr {
                            let (a, b) = if d < sr {
                                let (x, y) = self.handles.split_at_mut(sr);
                                (&mut x[d], &y[0])
                            } else {
                                let (x, y) = self.handles.split_at_mut(d);
                                (&mut y[0], &x[sr])
                            };
                            a.inj.clone_from(&b.inj);
                            a.stream = b.stream;
                            self.rep.label("injector-clone-from");
                        }
                    }
                    self.check_injectors(&when);
                }
                Op::UpdateConfig => {
                    gate::begin_blocking();
                    let cfg = self.cfg.clone();
                    self.nuc.as_mut().unwrap().update_config(cfg);
                    gate::end_blocking();
                    self.rep.label("update-config");
                    self.check_injectors(&when);
                }
                Op::DropInjector { sel, on_thread } => {
                    if let Some(hi) = self.pick_handle(*sel, false) {
                        let h = self.handles.remove(hi);
                        if *on_thread {
                            std::thread::spawn(move || drop(h)).join().ok();
                        } else {
                            drop(h);
                        }
                    }
                    self.check_injectors(&when);
                }
                Op::HoldRunAt { phase } => {
                    if !self.h.free_running {
                        gate::hold_run_at(gate::RUN_SITES[*phase as usize % gate::RUN_SITES.len()]);
                    }
                }
                Op::AdvanceRunTo { phase } => {
                    if !self.h.free_running {
                        let parked = gate::ctl().st.lock().run_parked;
                        if parked != 0 {
                            let cur = gate::RUN_SITES.iter().position(|&s| s == parked).unwrap_or(0);
                            let tgt = (*phase as usize % gate::RUN_SITES.len()).max(cur + 1).min(gate::RUN_SITES.len() - 1);
                            if gate::advance_run_to(gate::RUN_SITES[tgt]) == Waited::Timeout {
                                self.rep.inconclusive = Some("advance_run_to timed out".into());
                            }
                        }
                    }
                }
                Op::ReleaseRun => {
                    gate::release_run();
                    gate::release_score();
                    if !self.h.free_running && gate::wait_runs_idle() == Waited::Timeout {
                        self.rep.inconclusive = Some("run did not finish after release".into());
                    }
                }
                Op::HoldScore { idx } => {
                    if !self.h.free_running {
                        gate::ctl().st.lock().score_hold = Some(*idx as u64);
                    }
                }
                Op::ReleaseScore => gate::release_score(),
                Op::Sleep { ms } => std::thread::sleep(Duration::from_millis((*ms % 4) as u64)),
                Op::BgInjector { inj, n, pause, text } => {
                    if self.bg.len() < 3 {
                        if let Some(hi) = self.pick_handle(*inj, false) {
                            let stream = self.handles[hi].stream;
                            let injc = self.handles[hi].inj.clone();
                            let n = (*n as usize % 60) + 1;
                            let mut payloads = vec![];
                            for k in 0..n {
                                payloads.push(self.new_item(stream, text.wrapping_add(k as u16 * 13)));
                            }
                            *self.reserved.entry(stream).or_insert(0) += n as u32;
                            let items = self.items.clone();
                            let pause = *pause as u64 % 8;
                            let h = std::thread::spawn(move || {
                                let mut it = payloads.into_iter();
                                let mut k = 0usize;
                                while let Some((t, texts)) = it.next() {
                                    let id = t.id;
                                    if k % 5 == 4 {
                                        // a small batch through extend
                                        let mut batch = vec![(t, texts)];
                                        for _ in 0..3 {
                                            if let Some(x) = it.next() {
                                                batch.push(x);
                                            }
                                        }
                                        let ids: Vec<u64> = batch.iter().map(|b| b.0.id).collect();
                                        let tx: HashMap<u64, Vec<String>> = batch.iter().map(|b| (b.0.id, b.1.clone())).collect();
                                        let v: Vec<Tracked> = batch.into_iter().map(|b| b.0).collect();
                                        injc.extend(v.into_iter(), |t, cols| fill_cols(&tx[&t.id], cols));
                                        let mut m = items.lock();
                                        for id in ids {
                                            if let Some(i) = m.get_mut(&id) {
                                                i.returned = true;
                                            }
                                        }
                                    } else {
                                        injc.push(t, |_, cols| fill_cols(&texts, cols));
                                        if let Some(i) = items.lock().get_mut(&id) {
                                            i.returned = true;
                                        }
                                    }
                                    k += 1;
                                    if pause > 0 {
                                        std::thread::sleep(Duration::from_micros(pause * 30));
                                    }
                                }
                            });
                            self.bg.push((stream, h));
                            self.rep.label("free-running-injector-thread");
                        }
                    }
                }
                Op::TickWhileReleasing { delay_ms } => {
                    let parked = gate::ctl().st.lock().run_parked != 0;
                    let d = (*delay_ms % 6) as u64;
                    let helper = std::thread::spawn(move || {
                        std::thread::sleep(Duration::from_millis(d));
                        gate::release_run();
                        gate::release_score();
                    });
                    if parked {
                        self.rep.label("run-finishes-during-tick-timeout");
                    }
                    self.do_tick(10, &when);
                    let _ = helper.join();
                }
            }
            if !matches!(op, Op::Tick { .. } | Op::Restart { .. } | Op::TickWhileReleasing { .. } | Op::BgInjector { .. }) {
                self.check_injectors(&when);
            }
        }
        // ---------------- wind down --------------------------------------------------------
        gate::release_run();
        gate::release_score();
        let held: Vec<usize> = self.writers.iter().enumerate().filter(|(_, w)| w.held).map(|(i, _)| i).collect();
        if !held.is_empty() {
            self.saw_inflight_then_published = true;
        }
        for k in held {
            self.release_writer(k);
        }
        self.reap_writers();
        for (_, h) in self.bg.drain(..) {
            let _ = h.join();
        }
        if gate::fatal().is_none() && self.rep.inconclusive.is_none() {
            if self.h.quiesce {
                self.quiesce();
            }
        }
        if gate::fatal().is_some() {
            self.check_snapshot("at the end");
            // the pool thread is parked forever: leak the matcher instead of dropping it
            gate::abandon();
            let nuc = self.nuc.take();
            std::mem::forget(nuc);
            let handles = std::mem::take(&mut self.handles);
            std::mem::forget(handles);
        } else {
            if gate::wait_runs_idle() == Waited::Timeout {
                gate::abandon();
                std::mem::forget(self.nuc.take());
                self.rep.inconclusive = Some("run still in progress at the end".into());
            } else {
                let nuc = self.nuc.take();
                self.handles.clear();
                if let Err(p) = vcommon::driver::guarded(move || drop(nuc)) {
                    self.rep.find("C06", "drop-panic", format!("dropping the matcher panicked: {p}"));
                }
            }
        }
        nucleo::verif::set_hook(None);
        let mut rep = std::mem::take(&mut self.rep);
        if self.had_restart {
            rep.label("history-with-restart");
        }
        rep
    }

    /// C07: release everything, wait until tick reports not running, compare with from-scratch
    fn quiesce(&mut self) {
        // no injector is active any more
        let cur = self.stream;
        self.handles.retain(|h| h.stream != cur);
        let mut status = None;
        for k in 0..80 {
            let s = self.do_tick(10, &format!("quiescing tick #{k}"));
            let Some(s) = s else { return };
            status = Some(s);
            if !s.running {
                break;
            }
        }
        let Some(s) = status else { return };
        if s.running {
            self.rep.inconclusive = Some("matcher still running after 80 quiescing ticks".into());
            return;
        }
        self.rep.label("quiescent");
        let nuc = self.nuc.as_ref().unwrap();
        if nuc.active_injectors() != 0 {
            return;
        }
        let snap = nuc.snapshot();
        // from scratch
        let mut fresh = MultiPattern::new(self.cols());
        for c in 0..self.cols() {
            let (cm, nm) = self.modes[c];
            fresh.reparse(c, &self.texts[c], case_of(cm), norm_of(nm), false);
        }
        let mut matcher = Matcher::new(self.cfg.clone());
        let bound = self.total_created.load(std::sync::atomic::Ordering::SeqCst) + 64;
        let mut all = 0u32;
        let mut want: Vec<(u32, u32, u32)> = vec![];
        for idx in 0..bound {
            let Some(it) = snap.get_item(idx) else { continue };
            if it.data.stream != cur {
                // snapshot does not belong to the current stream: reported by C12/C19
                return;
            }
            all += 1;
            if let Some(sc) = fresh.score(it.matcher_columns, &mut matcher) {
                let len: u32 = it.matcher_columns.iter().map(|c| c.len() as u32).sum();
                want.push((sc, len, idx));
            }
        }
        let expected_items = self.items.lock().values().filter(|i| i.stream == cur).count() as u32;
        if fresh.is_empty() {
            want.sort_by_key(|w| w.2);
        } else {
            want.sort_by(|a, b| b.0.cmp(&a.0).then(a.1.cmp(&b.1)).then(a.2.cmp(&b.2)));
        }
        let want_m: Vec<(u32, u32)> = want.iter().map(|w| (w.0, w.2)).collect();
        let got_m: Vec<(u32, u32)> = snap.matches().iter().map(|m| (m.score, m.idx)).collect();
        let proper_subset = !want_m.is_empty() && (want_m.len() as u32) < all;
        if proper_subset {
            self.rep.label("final-pattern-matches-proper-subset");
        }
        if snap.item_count() != all || all != expected_items {
            self.rep.find("C07", "item-count", format!("quiescent snapshot: item_count {} but {} items are published in the current stream ({} injected); pattern texts {:?}", snap.item_count(), all, expected_items, self.texts));
        }
        if got_m != want_m {
            let missing: Vec<u32> = want_m.iter().map(|w| w.1).filter(|i| !got_m.iter().any(|g| g.1 == *i)).take(8).collect();
            let extra: Vec<u32> = got_m.iter().map(|w| w.1).filter(|i| !want_m.iter().any(|g| g.1 == *i)).take(8).collect();
            let sig = if !missing.is_empty() {
                "missing-matches"
            } else if !extra.is_empty() {
                "extra-matches"
            } else {
                "order-or-score"
            };
            self.rep.find("C07", sig, format!("quiescent snapshot differs from the from-scratch result for pattern texts {:?}: {} matches vs {} expected; missing item indices {missing:?}, unexpected {extra:?}; first got {:?}, first expected {:?}", self.texts, got_m.len(), want_m.len(), got_m.iter().take(6).collect::<Vec<_>>(), want_m.iter().take(6).collect::<Vec<_>>()));
        }
    }
}

// ----------------------------------------------------------------------------------------------
// generators
// ----------------------------------------------------------------------------------------------
#[derive(Clone, Copy, PartialEq, Eq, Debug)]
pub enum Bias {
    General,
    Restarts,
    Injectors,
    Quiesce,
}

pub fn op_strategy(bias: Bias) -> BoxedStrategy<Op> {
    let edit = prop_oneof![
        55 => (0u8..13).prop_map(Edit::Append),
        15 => Just(Edit::DeleteLast),
        25 => any::<u16>().prop_map(Edit::Replace),
        5 => Just(Edit::Clear),
    ];
    let (w_restart, w_inj, w_push) = match bias {
        Bias::General => (4, 5, 30),
        Bias::Restarts => (14, 6, 24),
        Bias::Injectors => (8, 40, 10),
        Bias::Quiesce => (3, 4, 32),
    };
    prop_oneof![
        w_push => (any::<u8>(), any::<u16>()).prop_map(|(inj, text)| Op::Push { inj, text }),
        6 => (any::<u8>(), any::<u16>()).prop_map(|(inj, text)| Op::PushHeld { inj, text }),
        5 => (any::<u8>(), proptest::sample::select(vec![3u16, 30, 31, 33, 60, 200, 1000, 2015, 2016, 2048]), any::<u16>()).prop_map(|(inj, n, text)| Op::Bulk { inj, n, text }),
        5 => (any::<u8>(), 2u8..40, any::<u16>(), 0u8..50).prop_map(|(inj, n, text, hold_at)| Op::Extend { inj, n, text, hold_at }),
        8 => any::<u8>().prop_map(|sel| Op::ReleaseWriter { sel }),
        14 => (0u8..3, edit).prop_map(|(col, edit)| Op::Reparse { col, edit }),
        3 => (0u8..3, 0u8..3, 0u8..2).prop_map(|(col, case, norm)| Op::ReparseMode { col, case, norm }),
        2 => (0u8..3).prop_map(|col| Op::ReparseStricter { col }),
        1 => (0u8..30).prop_map(|ms| Op::SlowNotify { ms }),
        1 => Just(Op::ReleaseRunNoWait),
        22 => (0u8..3).prop_map(|timeout| Op::Tick { timeout }),
        w_restart => any::<bool>().prop_map(|clear| Op::Restart { clear }),
        w_inj / 3 + 1 => Just(Op::NewInjector),
        w_inj / 3 + 1 => any::<u8>().prop_map(|sel| Op::CloneInjector { sel }),
        w_inj / 3 + 1 => (any::<u8>(), any::<bool>()).prop_map(|(sel, on_thread)| Op::DropInjector { sel, on_thread }),
        w_inj / 6 + 1 => (any::<u8>(), any::<u8>()).prop_map(|(dst, src)| Op::CloneFromInjector { dst, src }),
        3 => Just(Op::UpdateConfig),
        1 => (proptest::sample::select(vec![2u16, 255, 256, 257, 512]), any::<bool>()).prop_map(|(n, clear)| Op::RestartBurst { n, clear }),
        8 => (0u8..8).prop_map(|phase| Op::HoldRunAt { phase }),
        4 => (0u8..8).prop_map(|phase| Op::AdvanceRunTo { phase }),
        5 => Just(Op::ReleaseRun),
        2 => (0u16..64).prop_map(|idx| Op::HoldScore { idx }),
        2 => Just(Op::ReleaseScore),
        if bias == Bias::Restarts { 6 } else { 1 } => (any::<u8>(), any::<u16>()).prop_map(|(sel, text)| Op::PushOld { sel, text }),
        1 => (0u8..4).prop_map(|ms| Op::Sleep { ms }),
        5 => (0u8..6).prop_map(|delay_ms| Op::TickWhileReleasing { delay_ms }),
        4 => (any::<u8>(), any::<u8>(), 0u8..8, any::<u16>()).prop_map(|(inj, n, pause, text)| Op::BgInjector { inj, n, pause, text }),
    ]
    .boxed()
}

pub fn history_strategy(bias: Bias, max_ops: usize) -> BoxedStrategy<History> {
    (1u8..=4, 1u8..=3, vcommon::gen::any_cfg(), proptest::collection::vec((0u8..3, 0u8..2), 3), proptest::collection::vec(op_strategy(bias), 1..=max_ops), proptest::bool::weighted(if bias == Bias::Quiesce { 1.0 } else { 0.6 }), proptest::bool::weighted(0.12))
        .prop_map(|(threads, columns, cfg, modes, ops, quiesce, free_running)| History { threads, columns, cfg, modes, ops, quiesce, free_running })
        .boxed()
}

/// hand-written scenario skeletons (every class named in the properties' non-triviality rules
/// occurs in every run by construction)
pub fn templates() -> Vec<History> {
    let cfg = Cfg { ignore_case: true, normalize: true, prefer_prefix: false, profile: 0 };
    let base = |threads: u8, ops: Vec<Op>| History { threads, columns: 1, cfg, modes: vec![(2, 1); 3], ops, quiesce: true, free_running: false };
    let push_n = |n: u16, text: u16| Op::Bulk { inj: 0, n, text };
    let mut v = vec![];
    // item in flight at scan time, then published
    v.push(base(2, vec![push_n(10, 1), Op::PushHeld { inj: 0, text: 5 }, push_n(5, 2), Op::Reparse { col: 0, edit: Edit::Replace(0) }, Op::Tick { timeout: 2 }, Op::ReleaseWriter { sel: 0 }, Op::Tick { timeout: 2 }]));
    // two in-flight items seen by different pool threads, then a rescore
    for threads in [2u8, 3, 4] {
        v.push(base(threads, vec![push_n(10, 1), Op::PushHeld { inj: 0, text: 5 }, push_n(19, 2), Op::PushHeld { inj: 0, text: 6 }, push_n(9, 3), Op::Reparse { col: 0, edit: Edit::Replace(0) }, Op::Tick { timeout: 2 }, Op::Reparse { col: 0, edit: Edit::Replace(1) }, Op::Tick { timeout: 2 }, Op::ReleaseWriter { sel: 0 }, Op::ReleaseWriter { sel: 0 }, Op::Tick { timeout: 2 }]));
    }
    // in flight + append update + empty pattern
    v.push(base(2, vec![push_n(20, 7), Op::PushHeld { inj: 0, text: 9 }, push_n(4, 3), Op::Tick { timeout: 2 }, Op::Reparse { col: 0, edit: Edit::Replace(0) }, Op::Tick { timeout: 2 }, Op::Reparse { col: 0, edit: Edit::Append(1) }, Op::Tick { timeout: 2 }, Op::ReleaseWriter { sel: 0 }]));
    // cancel at each run phase
    for phase in 0..7u8 {
        v.push(base(2, vec![push_n(50, 3), Op::Reparse { col: 0, edit: Edit::Replace(0) }, Op::HoldRunAt { phase }, Op::Tick { timeout: 0 }, Op::Reparse { col: 0, edit: Edit::Append(1) }, Op::Tick { timeout: 0 }, Op::ReleaseRun, Op::Tick { timeout: 2 }]));
    }
    // restart with a run finishing before / after, old injectors pushing
    for clear in [false, true] {
        for phase in [2u8, 3, 6] {
            v.push(base(2, vec![push_n(30, 4), Op::Reparse { col: 0, edit: Edit::Replace(0) }, Op::Tick { timeout: 2 }, push_n(5, 9), Op::HoldRunAt { phase }, Op::Tick { timeout: 0 }, Op::Restart { clear }, Op::PushOld { sel: 0, text: 3 }, Op::NewInjector, Op::Push { inj: 0, text: 8 }, Op::Tick { timeout: 0 }, Op::ReleaseRun, Op::Tick { timeout: 2 }, Op::PushOld { sel: 0, text: 4 }, Op::Tick { timeout: 2 }]));
        }
        v.push(base(1, vec![push_n(12, 4), Op::Reparse { col: 0, edit: Edit::Replace(0) }, Op::Tick { timeout: 2 }, Op::Restart { clear }, Op::Restart { clear: !clear }, Op::NewInjector, Op::Push { inj: 0, text: 1 }, Op::Tick { timeout: 2 }, Op::Tick { timeout: 2 }]));
        // writer held in flight across the restart
        v.push(base(2, vec![push_n(6, 4), Op::PushHeld { inj: 0, text: 1 }, Op::Reparse { col: 0, edit: Edit::Replace(0) }, Op::Tick { timeout: 2 }, Op::Restart { clear }, Op::NewInjector, Op::Push { inj: 1, text: 2 }, Op::Tick { timeout: 2 }, Op::ReleaseWriter { sel: 0 }, Op::Tick { timeout: 2 }]));
    }
    // truthful appends after marker characters ($ \ ^ ! ' space)
    for (first, app) in [(6u16, 8u8), (6, 0), (11, 5), (0, 10), (0, 8), (0, 6), (0, 7), (0, 9), (0, 5)] {
        let mut h = base(2, vec![Op::Bulk { inj: 0, n: 64, text: 11 }, Op::Reparse { col: 0, edit: Edit::Replace(first) }, Op::Tick { timeout: 2 }, Op::Reparse { col: 0, edit: Edit::Append(app) }, Op::Tick { timeout: 2 }, Op::Reparse { col: 0, edit: Edit::Append(0) }, Op::Tick { timeout: 2 }]);
        h.columns = 1;
        v.push(h);
    }
    // bucket boundaries: extend crossing the initial capacity with a held writer
    v.push(base(3, vec![push_n(2015, 3), Op::Extend { inj: 0, n: 30, text: 5, hold_at: 2 }, Op::Reparse { col: 0, edit: Edit::Replace(0) }, Op::Tick { timeout: 2 }, Op::ReleaseWriter { sel: 0 }, Op::Tick { timeout: 2 }]));
    // injector bookkeeping across restarts and timed-out ticks
    v.push(base(1, vec![Op::NewInjector, Op::CloneInjector { sel: 1 }, Op::DropInjector { sel: 0, on_thread: true }, Op::HoldRunAt { phase: 0 }, Op::Push { inj: 0, text: 1 }, Op::Tick { timeout: 0 }, Op::Restart { clear: false }, Op::Tick { timeout: 0 }, Op::NewInjector, Op::DropInjector { sel: 0, on_thread: false }, Op::ReleaseRun, Op::Tick { timeout: 2 }, Op::Restart { clear: true }, Op::NewInjector, Op::Tick { timeout: 2 }]));
    // a queued run (its pool thread is still busy with the finished job before it) is cancelled before it starts:
    // by a pattern edit, and - for the first run after a restart - by a pattern edit as well
    for rep in 0..5u16 {
        for app in [1u8, 2] {
            v.push(base(1, vec![push_n(40, 3), Op::Reparse { col: 0, edit: Edit::Replace(rep) }, Op::Tick { timeout: 2 }, Op::HoldRunAt { phase: 7 }, push_n(5, 9), Op::Tick { timeout: 0 }, Op::Reparse { col: 0, edit: Edit::Replace(rep + 1) }, Op::Tick { timeout: 0 }, Op::Reparse { col: 0, edit: Edit::Append(app) }, Op::Tick { timeout: 0 }, Op::ReleaseRun, Op::Tick { timeout: 2 }, Op::Tick { timeout: 2 }]));
        }
        for clear in [false, true] {
            v.push(base(1, vec![push_n(12, 3), Op::Reparse { col: 0, edit: Edit::Replace(rep) }, Op::Tick { timeout: 2 }, Op::HoldRunAt { phase: 7 }, push_n(5, 9), Op::Tick { timeout: 0 }, Op::Restart { clear }, Op::NewInjector, Op::Bulk { inj: 0, n: 12, text: 5 }, Op::Tick { timeout: 0 }, Op::Reparse { col: 0, edit: Edit::Append(1) }, Op::Tick { timeout: 0 }, Op::ReleaseRun, Op::Tick { timeout: 2 }, Op::Tick { timeout: 2 }]));
        }
    }
    // a scan of new items that sees an item in flight is cancelled while it runs
    for threads in [1u8, 2] {
        for idx in [21u16, 25, 30] {
            v.push(base(threads, vec![Op::Reparse { col: 0, edit: Edit::Replace(0) }, push_n(20, 3), Op::Tick { timeout: 2 }, Op::PushHeld { inj: 0, text: 3 }, push_n(10, 3), Op::HoldScore { idx }, Op::Tick { timeout: 0 }, Op::Reparse { col: 0, edit: Edit::Append(1) }, Op::Tick { timeout: 0 }, Op::ReleaseWriter { sel: 0 }, Op::Tick { timeout: 2 }, Op::Tick { timeout: 2 }]));
        }
    }
    // the new stream's first result looks exactly like the old stream's last one (same number of items, same texts)
    for rep in [None, Some(0u16)] {
        for clear in [false, true] {
            let mut ops = vec![];
            if let Some(r) = rep {
                ops.push(Op::Reparse { col: 0, edit: Edit::Replace(r) });
            }
            ops.extend([Op::Bulk { inj: 0, n: 6, text: 7 }, Op::Tick { timeout: 2 }, Op::Tick { timeout: 2 }, Op::Restart { clear }, Op::NewInjector, Op::Bulk { inj: 0, n: 6, text: 7 }, Op::Tick { timeout: 2 }, Op::Tick { timeout: 2 }]);
            v.push(base(1, ops));
        }
    }
    // restart followed by an appending edit before the next tick; restart after a pattern that matched nothing;
    // restart without any new item; restart(true) ticked before the first push
    for clear in [false, true] {
        v.push(base(1, vec![push_n(20, 3), Op::Reparse { col: 0, edit: Edit::Replace(0) }, Op::Tick { timeout: 2 }, Op::Tick { timeout: 2 }, Op::Restart { clear }, Op::Reparse { col: 0, edit: Edit::Append(1) }, Op::NewInjector, Op::Bulk { inj: 0, n: 8, text: 5 }, Op::Tick { timeout: 2 }, Op::Tick { timeout: 2 }]));
        for (text, pat) in [(3u16, 15u16), (7, 9), (1, 10), (9, 8), (4, 2), (11, 15)] {
            v.push(base(1, vec![Op::Reparse { col: 0, edit: Edit::Replace(pat) }, Op::Bulk { inj: 0, n: 6, text }, Op::Tick { timeout: 2 }, Op::Tick { timeout: 2 }, Op::Restart { clear }, Op::NewInjector, Op::Bulk { inj: 0, n: 3, text: text + 1 }, Op::Bulk { inj: 0, n: 3, text: text + 2 }, Op::Bulk { inj: 0, n: 3, text: 12 }, Op::Tick { timeout: 2 }, Op::Tick { timeout: 2 }]));
        }
        v.push(base(1, vec![Op::Reparse { col: 0, edit: Edit::Replace(0) }, push_n(10, 3), Op::Tick { timeout: 2 }, Op::Tick { timeout: 2 }, Op::Restart { clear }, Op::Tick { timeout: 2 }, Op::Tick { timeout: 2 }]));
        v.push(base(1, vec![push_n(3, 1), Op::Tick { timeout: 2 }, Op::Restart { clear }, Op::Tick { timeout: 2 }, Op::NewInjector, Op::Tick { timeout: 2 }, Op::Push { inj: 0, text: 2 }, Op::Tick { timeout: 2 }]));
    }
    // an edit to a non-empty pattern whose run is still uncollected, then back to the empty pattern
    for phase in [2u8, 3, 5] {
        v.push(base(1, vec![push_n(50, 3), Op::Tick { timeout: 2 }, Op::Tick { timeout: 2 }, Op::HoldRunAt { phase }, Op::Reparse { col: 0, edit: Edit::Replace(0) }, Op::Tick { timeout: 0 }, Op::Reparse { col: 0, edit: Edit::Clear }, Op::Tick { timeout: 0 }, Op::ReleaseRun, Op::Tick { timeout: 2 }, Op::Tick { timeout: 2 }]));
    }
    // typing behind a word that consists of a marker only ("^ a b" -> "^ a ba")
    for marker in [7u8, 6, 9, 8] {
        v.push(base(1, vec![Op::Bulk { inj: 0, n: 64, text: 11 }, Op::Reparse { col: 0, edit: Edit::Clear }, Op::Reparse { col: 0, edit: Edit::Append(marker) }, Op::Reparse { col: 0, edit: Edit::Append(5) }, Op::Reparse { col: 0, edit: Edit::Append(0) }, Op::Reparse { col: 0, edit: Edit::Append(5) }, Op::Reparse { col: 0, edit: Edit::Append(1) }, Op::Tick { timeout: 2 }, Op::Tick { timeout: 2 }, Op::Reparse { col: 0, edit: Edit::Append(0) }, Op::Tick { timeout: 2 }, Op::Tick { timeout: 2 }]));
    }
    // the same two-word text is parsed again with stricter settings as an append
    for (first, mode) in [(65000u16, (1u8, 1u8)), (65001, (1, 1)), (65002, (2, 1)), (65003, (1, 1)), (65004, (2, 1)), (3, (1, 1))] {
        let mut h = base(1, vec![Op::Bulk { inj: 0, n: 64, text: 11 }, Op::Bulk { inj: 0, n: 40, text: 3 }, Op::Reparse { col: 0, edit: Edit::Replace(first) }, Op::Tick { timeout: 2 }, Op::Tick { timeout: 2 }, Op::ReparseStricter { col: 0 }, Op::Tick { timeout: 2 }, Op::Tick { timeout: 2 }, Op::ReparseStricter { col: 0 }, Op::Tick { timeout: 2 }, Op::Tick { timeout: 2 }]);
        h.modes = vec![mode; 3];
        v.push(h);
    }
    // the worker sits in a slow notify callback (holding its lock) when a restarting / cancelling tick arrives
    for clear in [false, true] {
        for t in [0u8, 1] {
            v.push(base(1, vec![push_n(30, 3), Op::NewInjector, Op::Reparse { col: 0, edit: Edit::Replace(0) }, Op::HoldRunAt { phase: 4 }, Op::Tick { timeout: 0 }, Op::Tick { timeout: 0 }, Op::SlowNotify { ms: 25 }, Op::ReleaseRunNoWait, Op::Sleep { ms: 2 }, Op::Restart { clear }, Op::NewInjector, Op::Tick { timeout: t }, Op::Tick { timeout: 2 }, Op::Tick { timeout: 2 }]));
            v.push(base(1, vec![push_n(30, 3), Op::Reparse { col: 0, edit: Edit::Replace(0) }, Op::HoldRunAt { phase: 4 }, Op::Tick { timeout: 0 }, Op::Tick { timeout: 0 }, Op::SlowNotify { ms: 25 }, Op::ReleaseRunNoWait, Op::Sleep { ms: 2 }, Op::Reparse { col: 0, edit: Edit::Replace(if clear { 1 } else { 2 }) }, Op::Tick { timeout: t }, Op::Tick { timeout: 2 }, Op::Tick { timeout: 2 }]));
        }
    }
    // clone_from across a restart, in both directions, then pushes through the overwritten handles
    for clear in [false, true] {
        // handles: [0: old, 1: old] -> restart -> [2: new]; handle 2 becomes a clone of old handle 0 and pushes
        v.push(base(1, vec![push_n(3, 1), Op::NewInjector, Op::Tick { timeout: 2 }, Op::Restart { clear }, Op::NewInjector, Op::Push { inj: 0, text: 2 }, Op::CloneFromInjector { dst: 2, src: 0 }, Op::PushOld { sel: 2, text: 5 }, Op::PushOld { sel: 2, text: 6 }, Op::Tick { timeout: 2 }, Op::Tick { timeout: 2 }]));
        // old handle 1 becomes a clone of the new handle 2 and pushes into the current stream
        v.push(base(1, vec![push_n(3, 1), Op::NewInjector, Op::Tick { timeout: 2 }, Op::Restart { clear }, Op::NewInjector, Op::CloneFromInjector { dst: 1, src: 2 }, Op::Push { inj: 0, text: 7 }, Op::Push { inj: 1, text: 8 }, Op::Tick { timeout: 2 }, Op::Tick { timeout: 2 }]));
    }
    // 255 / 256 / 257 restarts between two ticks
    for n in [255u16, 256, 257] {
        v.push(base(1, vec![push_n(5, 1), Op::NewInjector, Op::Tick { timeout: 2 }, Op::RestartBurst { n, clear: false }, Op::NewInjector, Op::NewInjector, Op::Push { inj: 0, text: 4 }, Op::Tick { timeout: 2 }, Op::Tick { timeout: 2 }]));
    }
    // update_config while a run is held in each phase, then the matcher is ticked to quiescence
    for phase in [2u8, 3, 5] {
        v.push(base(2, vec![push_n(50, 3), Op::Reparse { col: 0, edit: Edit::Replace(0) }, Op::HoldRunAt { phase }, Op::Tick { timeout: 0 }, Op::UpdateConfig, Op::Tick { timeout: 2 }, Op::ReleaseRun, Op::Tick { timeout: 2 }]));
    }
    // restart, then update_config before the next tick; clone_from across streams
    v.push(base(1, vec![push_n(5, 1), Op::NewInjector, Op::Tick { timeout: 2 }, Op::Restart { clear: false }, Op::UpdateConfig, Op::NewInjector, Op::CloneFromInjector { dst: 0, src: 255 }, Op::Tick { timeout: 2 }, Op::Restart { clear: true }, Op::UpdateConfig, Op::Tick { timeout: 2 }]));
    // multi column
    let mut mc = base(2, vec![push_n(40, 2), Op::Reparse { col: 0, edit: Edit::Replace(0) }, Op::Reparse { col: 1, edit: Edit::Replace(1) }, Op::Tick { timeout: 2 }, Op::Reparse { col: 1, edit: Edit::Append(0) }, Op::Tick { timeout: 2 }]);
    mc.columns = 3;
    v.push(mc);
    v
}
