//! C13 — no lost wake-up: a tick that reports 'running' is followed by a notification.

use crate::gate::{self, hsite, Event, Waited};
use nucleo::pattern::{CaseMatching, Normalization};
use nucleo::verif::site;
use nucleo::{Config, Injector, Nucleo, Utf32String};
use parking_lot::Mutex;
use proptest::prelude::*;
use serde::{Deserialize, Serialize};
use std::sync::Arc;
use vcommon::driver::{guarded, Check, Outcome, Tier};

pub struct C13;

#[derive(Clone, Debug, Serialize, Deserialize, Hash, PartialEq, Eq)]
pub struct TickPlan {
    /// 0 | 1 ms
    pub timeout: u8,
    pub change_pattern: bool,
    pub more_items: bool,
    /// tick site at which the run is moved: 0 none, 1 AFTER_CLEAR, 2 TRYLOCK_FAILED, 3 AFTER_REARM
    pub at: u8,
    /// 0 leave it, 1 to RUN_AFTER_NOTIFY (flag read done, lock still held), 2 to completion
    pub advance_to: u8,
    /// where a run spawned by this tick is held: index into HOLDS
    pub hold_next: u8,
    /// the pattern is cleared (the following runs take the empty-pattern path); cancels like a change
    #[serde(default)]
    pub clear_pattern: bool,
    /// Nucleo::update_config (same configuration) is called after this tick, while the run it may
    /// have reported as running is wherever the plan left it
    #[serde(default)]
    pub update_config: bool,
}

/// phases at which the run is held between ticks
const HOLDS: [u32; 5] = [site::RUN_AFTER_SCAN, site::RUN_AFTER_SORT, site::RUN_BEFORE_NOTIFY_READ, site::RUN_AFTER_NOTIFY, site::RUN_JOB_DONE];

#[derive(Clone, Debug, Serialize, Deserialize, Hash)]
pub struct WakeCase {
    pub threads: u8,
    pub items: u16,
    /// the first run is spawned by a tick that saw new items (false) or a pattern change (true)
    pub first_by_pattern: bool,
    pub first_hold: u8,
    pub ticks: Vec<TickPlan>,
    /// second clause: pushes/extends (n items each) from this many threads
    pub push_threads: u8,
    pub push_batches: Vec<u8>,
    /// keep the pattern empty (the run takes its early-return path)
    #[serde(default)]
    pub empty_pattern: bool,
    /// a writer is held inside its fill callback while the first run scans, and released afterwards
    #[serde(default)]
    pub inflight_first: bool,
    /// after everything has settled, tick once more (timeout 0) and judge that tick
    #[serde(default)]
    pub final_tick: bool,
}

struct Shared {
    inj: Mutex<Option<Injector<u64>>>,
}

thread_local! {
    /// ids the current thread is injecting right now (second clause)
    static INJECTING: std::cell::RefCell<Vec<u64>> = const { std::cell::RefCell::new(Vec::new()) };
    /// notify calls made on this thread, during the current push/extend, that saw all of its items
    static NOTIFY_OK: std::cell::Cell<u32> = const { std::cell::Cell::new(0) };
}

fn tick_site(at: u8) -> u32 {
    match at {
        1 => site::TICK_AFTER_CLEAR,
        2 => site::TICK_TRYLOCK_FAILED,
        3 => site::TICK_AFTER_REARM,
        _ => 0,
    }
}

pub fn single_tick_plans() -> Vec<WakeCase> {
    let mut v = vec![];
    for first_by_pattern in [false, true] {
        for first_hold in 0..5u8 {
            for timeout in [0u8, 1] {
                for change_pattern in [false, true] {
                    for at in 0..4u8 {
                        for advance_to in 0..3u8 {
                            if at == 0 && advance_to != 0 {
                                continue;
                            }
                            v.push(WakeCase { threads: 1, items: 30, first_by_pattern, first_hold, ticks: vec![TickPlan { timeout, change_pattern, more_items: false, at, advance_to, hold_next: 2, clear_pattern: false, update_config: false }], push_threads: 1, push_batches: vec![1, 3], empty_pattern: false, inflight_first: false, final_tick: false });
                        }
                    }
                }
            }
        }
    }
    // runs that only resolve an item first seen in flight, with empty and non-empty patterns
    for empty_pattern in [true, false] {
        for first_hold in 0..4u8 {
            for threads in [1u8, 2] {
                v.push(WakeCase { threads, items: 12, first_by_pattern: false, first_hold, ticks: vec![TickPlan { timeout: 0, change_pattern: false, more_items: false, at: 0, advance_to: 0, hold_next: 2, clear_pattern: false, update_config: false }], push_threads: 1, push_batches: vec![], empty_pattern, inflight_first: true, final_tick: true });
                v.push(WakeCase { threads, items: 12, first_by_pattern: true, first_hold, ticks: vec![TickPlan { timeout: 1, change_pattern: false, more_items: true, at: 3, advance_to: 2, hold_next: 1, clear_pattern: false, update_config: false }], push_threads: 1, push_batches: vec![2], empty_pattern, inflight_first: false, final_tick: true });
            }
        }
    }
    // a cancelled run followed by empty-pattern runs; the tick after it finds the run in each phase
    for first_hold in [0u8, 1] {
        for hold_next in 0..5u8 {
            for timeout in [0u8, 1] {
                for (at, advance_to) in [(0u8, 0u8), (2, 1), (2, 2), (3, 1), (3, 2)] {
                    for more_items in [false, true] {
                        v.push(WakeCase {
                            threads: 1,
                            items: 40,
                            first_by_pattern: false,
                            first_hold,
                            ticks: vec![TickPlan { timeout: 0, change_pattern: false, more_items, at: 0, advance_to: 0, hold_next, clear_pattern: true, update_config: false }, TickPlan { timeout, change_pattern: false, more_items: false, at, advance_to, hold_next: 2, clear_pattern: false, update_config: false }],
                            push_threads: 1,
                            push_batches: vec![],
                            empty_pattern: false,
                            inflight_first: false,
                            final_tick: false,
                        });
                    }
                }
            }
        }
    }
    // update_config while the promised run is held in each phase
    for first_by_pattern in [false, true] {
        for first_hold in 0..5u8 {
            for timeout in [0u8, 1] {
                v.push(WakeCase { threads: 1, items: 60, first_by_pattern, first_hold, ticks: vec![TickPlan { timeout, change_pattern: false, more_items: false, at: 0, advance_to: 0, hold_next: 2, clear_pattern: false, update_config: true }], push_threads: 1, push_batches: vec![], empty_pattern: false, inflight_first: false, final_tick: false });
            }
        }
    }
    v
}

impl Check for C13 {
    type Case = WakeCase;
    fn id(&self) -> &'static str {
        "C13"
    }
    fn isolate(&self) -> bool {
        true
    }
    fn max_shrink_iters(&self) -> u32 {
        400
    }
    fn rule(&self) -> String {
        "two-party schedules between the ticking thread and the background run, owned by the driver through hook points: the run is held at RUN_AFTER_SCAN / RUN_AFTER_SORT / RUN_BEFORE_NOTIFY_READ / RUN_AFTER_NOTIFY / RUN_JOB_DONE (the spawned job after its late flag check, before it returns); each subject tick (timeout 0|1, with or without a pattern change, a cleared pattern - a cancelled run followed by empty-pattern runs - or new items; optionally followed by update_config) moves the run at TICK_AFTER_CLEAR / TICK_TRYLOCK_FAILED / TICK_AFTER_REARM past its flag read (lock still held) or to completion. All single-tick plans (400) and 200 'cancel by clearing the pattern, then tick' plans are enumerated as templates in every run; 2-3 tick plans are sampled. Oracle: notification ledger vs run-completion events: for every tick that returned running=true and whose run was not cancelled later, at least one notify call happened after that tick began and not before the run's results were available (RUN_AFTER_SORT). Second clause: every push/extend call makes at least one notify call on its own thread during which every item of that call is visible through get (1-3 injector threads; with >= 2 threads one push is held inside its fill callback until a push of another thread that reserved a later index has completed). Non-trivial: the run passes its flag read while the tick is between clearing and re-arming the flag.".into()
    }
    fn assumptions(&self) -> Vec<String> {
        vec!["'eventually' is checked as 'by the time the run has ended and nothing is left running' (bounded history)".into(), "sequentially consistent schedules at hook-point granularity".into()]
    }
    fn total_cases(&self, tier: Tier) -> u64 {
        match tier {
            Tier::Quick => 2_000,
            Tier::Thorough => 100_000,
        }
    }
    fn templates(&self, _tier: Tier) -> Vec<WakeCase> {
        single_tick_plans()
    }
    fn strategy(&self, _tier: Tier) -> BoxedStrategy<WakeCase> {
        let plan = (0u8..2, proptest::bool::weighted(0.3), proptest::bool::weighted(0.3), 0u8..4, 0u8..3, 0u8..5, proptest::bool::weighted(0.15), proptest::bool::weighted(0.12)).prop_map(|(timeout, change_pattern, more_items, at, advance_to, hold_next, clear_pattern, update_config)| TickPlan { timeout, change_pattern: change_pattern && !clear_pattern, more_items, at, advance_to, hold_next, clear_pattern, update_config });
        (1u8..=3, 1u16..200, any::<bool>(), 0u8..5, proptest::collection::vec(plan, 1..=3), 1u8..=3, proptest::collection::vec(1u8..40, 0..=4), (proptest::bool::weighted(0.3), proptest::bool::weighted(0.35), proptest::bool::weighted(0.5)))
            .prop_map(|(threads, items, first_by_pattern, first_hold, ticks, push_threads, push_batches, (empty_pattern, inflight_first, final_tick))| WakeCase { threads, items, first_by_pattern, first_hold, ticks, push_threads, push_batches, empty_pattern, inflight_first, final_tick })
            .boxed()
    }
    fn run(&self, c: &WakeCase) -> Outcome {
        let mut out = Outcome::default();
        gate::reset();
        let shared = Arc::new(Shared { inj: Mutex::new(None) });
        let sh = shared.clone();
        let visible_fail: Arc<Mutex<Option<String>>> = Arc::new(Mutex::new(None));
        let vf = visible_fail.clone();
        let notify = Arc::new(move || {
            gate::log_event(hsite::NOTIFY, 0);
            // second clause: the items of the push that triggered this call are visible
            let ids = INJECTING.with(|i| i.borrow().clone());
            if !ids.is_empty() {
                if let Some(inj) = sh.inj.lock().as_ref() {
                    let n = inj.injected_items();
                    let mut found = 0;
                    for k in 0..n {
                        if let Some(it) = inj.get(k) {
                            if ids.contains(it.data) {
                                found += 1;
                            }
                        }
                    }
                    if found != ids.len() {
                        *vf.lock() = Some(format!("notify was called by a push/extend of {} items but only {found} of them are visible through get", ids.len()));
                    } else {
                        NOTIFY_OK.with(|n| n.set(n.get() + 1));
                    }
                }
            }
        });
        let mut nuc: Nucleo<u64> = Nucleo::new(Config::DEFAULT, notify, Some(c.threads.max(1) as usize), 1);
        let inj = nuc.injector();
        *shared.inj.lock() = Some(inj.clone());
        let mut next_id = 1u64;
        let mut push_items = |n: u16, next_id: &mut u64| {
            for _ in 0..n {
                let id = *next_id;
                *next_id += 1;
                inj.push(id, |_, cols| cols[0] = Utf32String::from(if id % 3 == 0 { "ab" } else { "b" }));
            }
        };
        let mut text = if c.empty_pattern { String::new() } else { String::from("a") };
        let mut ticks: Vec<(u64, u64, bool, bool)> = vec![]; // (begin seq, end seq, running, cancels earlier runs)
        let mut fail: Option<(String, String)> = None;
        let mut inconclusive = false;

        // ---- first run -------------------------------------------------------------------
        push_items(c.items.max(1), &mut next_id);
        // optional writer held between reserving its index and publishing the item
        let held_gate = Arc::new((std::sync::atomic::AtomicBool::new(false), std::sync::atomic::AtomicBool::new(false)));
        let mut held_writer = None;
        if c.inflight_first {
            let inj2 = inj.clone();
            let g = held_gate.clone();
            held_writer = Some(std::thread::spawn(move || {
                inj2.push(999_999, |_, cols| {
                    cols[0] = Utf32String::from("ab");
                    g.0.store(true, std::sync::atomic::Ordering::SeqCst);
                    let t0 = std::time::Instant::now();
                    while !g.1.load(std::sync::atomic::Ordering::SeqCst) && t0.elapsed() < std::time::Duration::from_secs(30) {
                        std::thread::sleep(std::time::Duration::from_micros(200));
                    }
                });
            }));
            let t0 = std::time::Instant::now();
            while !held_gate.0.load(std::sync::atomic::Ordering::SeqCst) && t0.elapsed() < std::time::Duration::from_secs(10) {
                std::thread::sleep(std::time::Duration::from_micros(200));
            }
            out.label("item-in-flight-during-first-run");
        }
        if c.first_by_pattern {
            // bring the matcher to a fresh idle state first, then spawn the run by a pattern change
            let _ = nuc.tick(50);
            if gate::wait_runs_idle() == Waited::Timeout {
                inconclusive = { if std::env::var("C13_DEBUG").is_ok() { eprintln!("timeout at line {}", line!()); } true };
            }
            let _ = nuc.tick(50);
        }
        nuc.pattern.reparse(0, &text, CaseMatching::Smart, Normalization::Smart, false);
        gate::hold_run_at(HOLDS[c.first_hold as usize % HOLDS.len()]);
        if !c.first_by_pattern && !c.empty_pattern {
            // pattern changes always cancel: apply the pattern before any item was processed, then add
            // items so that the spawning tick is a plain "new items" tick
            let _ = nuc.tick(0);
            gate::release_run();
            let _ = gate::wait_runs_idle();
            let _ = nuc.tick(50);
            push_items(5, &mut next_id);
            gate::hold_run_at(HOLDS[c.first_hold as usize % HOLDS.len()]);
        }
        let b = gate::log_event(hsite::TICK_BEGIN, 0);
        let st = nuc.tick(0);
        let e = gate::log_event(hsite::TICK_END, st.running as u64);
        ticks.push((b, e, st.running, c.first_by_pattern));
        let (started, _) = gate::runs();
        if gate::wait_run_parked_or_ended(HOLDS[c.first_hold as usize % HOLDS.len()], started) == Waited::Timeout {
            inconclusive = { if std::env::var("C13_DEBUG").is_ok() { eprintln!("timeout at line {}", line!()); } true };
        }

        if let Some(h) = held_writer.take() {
            held_gate.1.store(true, std::sync::atomic::Ordering::SeqCst);
            let _ = h.join();
        }
        // ---- subject ticks -----------------------------------------------------------------
        for p in &c.ticks {
            if inconclusive {
                break;
            }
            if p.more_items {
                push_items(3, &mut next_id);
            }
            if p.clear_pattern {
                text.clear();
                nuc.pattern.reparse(0, &text, CaseMatching::Smart, Normalization::Smart, false);
                out.label("pattern-cleared");
            } else if p.change_pattern {
                text.push('b');
                nuc.pattern.reparse(0, &text, CaseMatching::Smart, Normalization::Smart, true);
            }
            let at = tick_site(p.at);
            let adv = p.advance_to;
            let hold_next = HOLDS[p.hold_next as usize % HOLDS.len()];
            let mut done = false;
            gate::TICK_PLAN.with(|tp| {
                *tp.borrow_mut() = Some(Box::new(move |s: u32| {
                    if s == at && !done && adv != 0 {
                        done = true;
                        let parked = gate::ctl().st.lock().run_parked;
                        if parked != 0 {
                            if adv == 1 {
                                let _ = gate::advance_run_to(site::RUN_AFTER_NOTIFY);
                            } else {
                                // let the parked run finish completely; later runs park at hold_next
                                let (_, ended) = gate::runs();
                                gate::hold_run_at(0);
                                let _ = gate::wait_run_parked_or_ended(0, ended + 1);
                                std::thread::sleep(std::time::Duration::from_micros(300));
                                gate::hold_run_at(hold_next);
                            }
                        }
                    }
                }));
            });
            let b = gate::log_event(hsite::TICK_BEGIN, p.timeout as u64);
            let r = guarded(|| nuc.tick(p.timeout as u64 % 2));
            gate::TICK_PLAN.with(|tp| *tp.borrow_mut() = None);
            let st = match r {
                Ok(s) => s,
                Err(m) => {
                    fail = Some(("tick-panic".into(), m));
                    break;
                }
            };
            let e = gate::log_event(hsite::TICK_END, st.running as u64);
            ticks.push((b, e, st.running, p.change_pattern || p.clear_pattern));
            // a run spawned by this tick parks at hold_next
            let cur_hold = gate::ctl().st.lock().run_hold;
            if cur_hold != site::RUN_AFTER_NOTIFY || adv != 1 {
                gate::hold_run_at(hold_next);
            }
            let (started, ended) = gate::runs();
            if started > ended {
                let h = gate::ctl().st.lock().run_hold;
                if gate::wait_run_parked_or_ended(h, started) == Waited::Timeout {
                    inconclusive = { if std::env::var("C13_DEBUG").is_ok() { eprintln!("timeout at line {}", line!()); } true };
                }
            }
            if p.update_config && !inconclusive {
                // blocks until the run in progress is done: nothing is held meanwhile
                gate::begin_blocking();
                nuc.update_config(Config::DEFAULT);
                gate::end_blocking();
                out.label("update-config-after-tick");
            }
        }
        // ---- quiescence ----------------------------------------------------------------------
        gate::release_run();
        if gate::wait_runs_idle() == Waited::Timeout {
            inconclusive = { if std::env::var("C13_DEBUG").is_ok() { eprintln!("timeout at line {}", line!()); } true };
        }
        std::thread::sleep(std::time::Duration::from_micros(500));
        if c.final_tick && !inconclusive && fail.is_none() {
            let b = gate::log_event(hsite::TICK_BEGIN, 0);
            match guarded(|| nuc.tick(0)) {
                Ok(st) => {
                    let e = gate::log_event(hsite::TICK_END, st.running as u64);
                    ticks.push((b, e, st.running, false));
                    if st.running {
                        out.label("final-tick-running");
                    }
                }
                Err(m) => fail = Some(("tick-panic".into(), m)),
            }
            if gate::wait_runs_idle() == Waited::Timeout {
                inconclusive = { if std::env::var("C13_DEBUG").is_ok() { eprintln!("timeout at line {}", line!()); } true };
            }
            std::thread::sleep(std::time::Duration::from_micros(500));
        }
        let log = gate::take_log();

        if !inconclusive && fail.is_none() {
            fail = judge(&log, &ticks, &mut out);
        }
        // ---- second clause: push / extend notify after the items are visible --------------------
        if fail.is_none() && !inconclusive && !c.push_batches.is_empty() {
            let nthreads = c.push_threads.max(1) as usize;
            let mut handles = vec![];
            let in_fill = Arc::new(std::sync::atomic::AtomicBool::new(false));
            let other_done = Arc::new(std::sync::atomic::AtomicBool::new(false));
            let silent: Arc<Mutex<Option<String>>> = Arc::new(Mutex::new(None));
            for t in 0..nthreads {
                let inj = inj.clone();
                let batches = c.push_batches.clone();
                let base = 1_000_000 * (t as u64 + 1);
                let (in_fill, other_done, silent) = (in_fill.clone(), other_done.clone(), silent.clone());
                handles.push(std::thread::spawn(move || {
                    use std::sync::atomic::Ordering::SeqCst;
                    let wait = |f: &std::sync::atomic::AtomicBool| {
                        let t0 = std::time::Instant::now();
                        while !f.load(SeqCst) && t0.elapsed() < std::time::Duration::from_millis(300) {
                            std::thread::sleep(std::time::Duration::from_micros(100));
                        }
                    };
                    let owed = |what: &str| {
                        if NOTIFY_OK.with(|n| n.get()) == 0 {
                            silent.lock().get_or_insert(format!("{what} returned without having called notify after its items were visible"));
                        }
                        NOTIFY_OK.with(|n| n.set(0));
                    };
                    if nthreads >= 2 && t == 0 {
                        // this push reserves its index first and completes after a push of thread 1 that reserved later
                        INJECTING.with(|i| *i.borrow_mut() = vec![base + 999]);
                        NOTIFY_OK.with(|n| n.set(0));
                        inj.push(base + 999, |_, cols| {
                            cols[0] = "ab".into();
                            in_fill.store(true, SeqCst);
                            wait(&other_done);
                        });
                        owed("a push that completed after a later-reserved push of another thread");
                        INJECTING.with(|i| i.borrow_mut().clear());
                    }
                    if nthreads >= 2 && t == 1 {
                        wait(&in_fill);
                    }
                    let mut id = base;
                    for (k, &n) in batches.iter().enumerate() {
                        let ids: Vec<u64> = (0..n.max(1) as u64).map(|j| id + j).collect();
                        id += 1000;
                        INJECTING.with(|i| *i.borrow_mut() = ids.clone());
                        NOTIFY_OK.with(|n| n.set(0));
                        if n <= 1 || k % 2 == 0 && n < 3 {
                            INJECTING.with(|i| *i.borrow_mut() = vec![ids[0]]);
                            inj.push(ids[0], |_, cols| cols[0] = "ab".into());
                            owed("push");
                            if ids.len() > 1 {
                                INJECTING.with(|i| *i.borrow_mut() = ids[1..].to_vec());
                                inj.extend(ids[1..].to_vec().into_iter(), |_, cols| cols[0] = "b".into());
                                owed("extend");
                            }
                        } else {
                            inj.extend(ids.clone().into_iter(), |_, cols| cols[0] = "ab".into());
                            owed("extend");
                        }
                        INJECTING.with(|i| i.borrow_mut().clear());
                        if t == 1 {
                            other_done.store(true, SeqCst);
                        }
                    }
                    other_done.store(true, SeqCst);
                }));
            }
            for h in handles {
                let _ = h.join();
            }
            out.label("push-notify-clause");
            if let Some(m) = visible_fail.lock().clone() {
                fail = Some(("notify-before-items-visible".into(), m));
            } else if let Some(m) = silent.lock().clone() {
                fail = Some(("push-without-notify".into(), m));
            }
            if nthreads >= 2 {
                out.label("push-completing-after-a-later-reserved-push");
            }
        }
        if inconclusive {
            if std::env::var("C13_DEBUG").is_ok() {
                eprintln!("INCONCLUSIVE {c:?}");
            }
            out.label("inconclusive(timeout)");
        }
        *shared.inj.lock() = None;
        drop(inj);
        let _ = gate::wait_runs_idle();
        if let Err(p) = guarded(move || drop(nuc)) {
            fail.get_or_insert(("drop-panic".into(), p));
        }
        nucleo::verif::set_hook(None);
        if let Some((s, m)) = fail {
            out.fail(s, format!("{m}; plan {c:?}"));
        }
        out
    }
}

/// notification ledger vs run-completion events
fn judge(log: &[Event], ticks: &[(u64, u64, bool, bool)], out: &mut Outcome) -> Option<(String, String)> {
    let notifies: Vec<u64> = log.iter().filter(|e| e.site == hsite::NOTIFY).map(|e| e.seq).collect();
    // runs: (start, after_sort (cancelled?), flag-read done (RUN_AFTER_NOTIFY), end)
    struct Run {
        start: u64,
        sorted: Option<(u64, bool)>,
        flag_read: Option<u64>,
        end: Option<u64>,
    }
    let mut runs: Vec<Run> = vec![];
    for e in log {
        match e.site {
            x if x == site::RUN_START => runs.push(Run { start: e.seq, sorted: None, flag_read: None, end: None }),
            x if x == site::RUN_AFTER_SORT => {
                if let Some(r) = runs.last_mut() {
                    r.sorted = Some((e.seq, e.arg != 0));
                }
            }
            x if x == site::RUN_AFTER_NOTIFY => {
                if let Some(r) = runs.last_mut() {
                    r.flag_read = Some(e.seq);
                }
            }
            x if x == site::RUN_END => {
                if let Some(r) = runs.last_mut() {
                    r.end = Some(e.seq);
                }
            }
            _ => {}
        }
    }
    // per run: the last tick that returned running=true while that run was the pending one; a
    // notification after that tick began is also one after every earlier tick began
    // the run a tick promised: the last run started before the next tick began (the driver waits
    // for a spawned run to park or end before it issues the next tick)
    let promised = |k: usize| {
        let limit = ticks.get(k + 1).map_or(u64::MAX, |t| t.0);
        runs.iter().enumerate().filter(|(_, r)| r.start < limit).map(|(i, _)| i).last()
    };
    // non-triviality: some run read the notification flag while a tick was between clearing and
    // re-arming it (or between clearing and returning, when the tick obtained the lock)
    for &(begin, end, _, _) in ticks {
        let clear = log.iter().find(|e| e.site == site::TICK_AFTER_CLEAR && e.seq > begin && e.seq < end).map(|e| e.seq);
        let rearm = log.iter().find(|e| e.site == site::TICK_AFTER_REARM && e.seq > begin && e.seq < end).map(|e| e.seq).unwrap_or(end);
        if let Some(cl) = clear {
            if runs.iter().any(|r| r.flag_read.map_or(false, |fr| fr > cl && fr < rearm)) {
                out.nontrivial = true;
                out.label("flag-read-inside-clear-rearm-window");
            }
        }
    }
    // Only the last tick of the history carries an open promise: a later tick supersedes an
    // earlier one (it either obtained the results itself or renewed the promise). Every prefix of a
    // plan that ends in a 'running' tick is generated as a case of its own.
    let mut last_tick_of_run: std::collections::BTreeMap<usize, usize> = Default::default();
    if let Some(&(_, _, true, _)) = ticks.last() {
        let k = ticks.len() - 1;
        if let Some(r) = promised(k) {
            last_tick_of_run.insert(r, k);
        }
    }
    for (&ri, &k) in &last_tick_of_run {
        let (begin, end, _, _) = ticks[k];
        // a later pattern change cancels the run this tick was waiting for
        if ticks[k + 1..].iter().any(|t| t.3) {
            continue;
        }
        let run = &runs[ri];
        if run.end.is_none() {
            continue;
        }
        let (sorted_seq, cancelled) = run.sorted.unwrap_or((run.start, false));
        if cancelled {
            if ticks[k].3 {
                // the cancelling tick itself: the run found is the predecessor it cancelled
                continue;
            }
            // Runs are strictly sequential (the spawning tick hands its lock guard to the job), so the
            // run promised by the last tick is the last one spawned; only a later cancelling tick
            // (there is none) could have cancelled it.
            return Some(("promised-run-cancelled-without-successor".into(), format!("tick #{k} returned running=true, the run it was waiting for was cancelled (RUN_AFTER_SORT seq {sorted_seq}) although no later tick changed the pattern, and nothing was spawned in its place: its results never arrive and no notification is owed by anyone")));
        }
        // tick window events
        let clear = log.iter().find(|e| e.site == site::TICK_AFTER_CLEAR && e.seq > begin && e.seq < end).map(|e| e.seq);
        let rearm = log.iter().find(|e| e.site == site::TICK_AFTER_REARM && e.seq > begin && e.seq < end).map(|e| e.seq);
        let trylock_failed = log.iter().any(|e| e.site == site::TICK_TRYLOCK_FAILED && e.seq > begin && e.seq < end);
        if let (Some(cl), Some(re), Some(fr)) = (clear, rearm, run.flag_read) {
            if fr > cl && fr < re {
                out.nontrivial = true;
                out.label("flag-read-inside-clear-rearm-window");
            }
        }
        let after_begin: Vec<u64> = notifies.iter().copied().filter(|&n| n > begin).collect();
        let ok = !after_begin.is_empty() && after_begin.iter().any(|&n| n > sorted_seq);
        if ok {
            out.label("running-tick-followed-by-notification");
            continue;
        }
        // classify
        let msg = format!("tick #{k} returned running=true, the run it was waiting for ended (RUN_END seq {:?}) but {} notify calls happened after the tick began (seq {begin}) and none after the results were available (seq {sorted_seq}); try-lock failed: {trylock_failed}, flag read seq {:?}, re-arm seq {rearm:?}", run.end, after_begin.len(), run.flag_read);
        let known = trylock_failed && matches!((run.flag_read, rearm), (Some(fr), Some(re)) if fr < re);
        if known {
            return Some(("run-read-flag-before-rearm-while-holding-lock".into(), msg));
        }
        return Some(("lost-wakeup".into(), msg));
    }
    None
}
