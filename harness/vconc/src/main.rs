mod c08;
mod c09;
mod c11;
mod c13;
mod c18;
mod gate;
mod hist;
mod machine;
mod payload;

#[global_allocator]
static ALLOC: payload::Counting = payload::Counting;

fn main() {
    let args: Vec<String> = std::env::args().skip(1).collect();
    let Some(id) = args.first().cloned() else {
        eprintln!("usage: vconc <ID> [--tier quick|thorough] [--replay FILE]");
        std::process::exit(2);
    };
    let rest = &args[1..];
    let code = match id.as_str() {
        "C08" => vcommon::driver::main_for(&c08::C08, rest),
        "C09" => vcommon::driver::main_for(&c09::C09, rest),
        "C11" => vcommon::driver::main_for(&c11::C11, rest),
        "C13" => vcommon::driver::main_for(&c13::C13, rest),
        "C18" => vcommon::driver::main_for(&c18::C18, rest),
        "C06" | "C07" | "C12" | "C19" | "C20" => {
            let id: &'static str = Box::leak(id.clone().into_boxed_str());
            vcommon::driver::main_for(&hist::HistCheck { id }, rest)
        }
        "scan-cancel" => {
            use vcommon::driver::Check;
            for arr in [9u8, 5, 0, 7] {
                for &n in &[60u32, 300, 1000] {
                    let mut fails = 0;
                    let mut total = 0;
                    let mut f = 0u32;
                    while f < 65536 {
                        let c = c18::SortCase { n, arrangement: arr, salt: 3, distinct: if arr == 5 { 4 } else { 0 }, threads: 1, cancel_at: None, total: false, nucleo_items: 0, cancel_frac: Some(f as u16), lower_after: None, dropping: false };
                        let o = c18::C18.run(&c);
                        total += 1;
                        if o.fail.is_some() {
                            fails += 1;
                        }
                        f += 257;
                    }
                    println!("arr {arr} n {n}: {fails}/{total} fail");
                }
            }
            0
        }
        "scan-sort" => {
            use vcommon::driver::Check;
            for arr in 0..9u8 {
                for &n in &[100u32, 500, 2000, 5000, 20000] {
                    for salt in 0..6u32 {
                        for &distinct in &[0u32, 2, 3, 17] {
                            let c = c18::SortCase { n, arrangement: arr, salt, distinct, threads: 1, cancel_at: None, total: false, nucleo_items: 0, cancel_frac: None, lower_after: None, dropping: false };
                            let o = c18::C18.run(&c);
                            if o.labels.contains(&"branch:heapsort") {
                                println!("heapsort: {c:?}");
                            }
                        }
                    }
                }
            }
            0
        }
        _ => {
            eprintln!("unknown property {id}");
            2
        }
    };
    std::process::exit(code);
}
