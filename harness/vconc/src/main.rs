fn main(){}
