//! C09 — item data is published race-free to every reader.
//!
//! Generated scripts (not timing) are executed one per process by the separately built
//! ThreadSanitizer runner `vtsan`; ThreadSanitizer's happens-before detector is the oracle.

include!("../../vtsan/src/script.rs");

use proptest::prelude::*;
use std::io::Read;
use std::time::{Duration, Instant};
use vcommon::driver::{case_hash, verif_root, Check, Outcome, Tier};

pub struct C09;

fn vtsan_bin() -> std::path::PathBuf {
    std::env::var("VTSAN_BIN").map(Into::into).unwrap_or_else(|_| verif_root().join("harness/vtsan/target/x86_64-unknown-linux-gnu/release/vtsan"))
}

fn raw_scenario() -> BoxedStrategy<Script> {
    // writer held inside its fill callback (often right after it allocated a bucket) while readers look
    (proptest::sample::select(vec![0u32, 1, 32, 33, 100]), 1u8..=3, 0u16..40, prop_oneof![Just(0u16), 1u16..70], 0u16..70, proptest::collection::vec(0u8..5, 1..=4), any::<bool>(), 0u16..50)
        .prop_map(|(capacity, columns, pre, n, at, reads, third, extra)| {
            let total = pre as u32 + n as u32 + 1;
            let mut w = vec![];
            if pre > 0 {
                w.push(SOp::Push { n: pre });
            }
            if n == 0 {
                w.push(SOp::PushHeld { set: 0, wait: 1 });
            } else {
                w.push(SOp::ExtendHeld { n: n + 1, at: at.min(n), set: 0, wait: 1 });
            }
            w.push(SOp::Push { n: extra });
            let mut r = vec![SOp::WaitFlag { k: 0 }];
            for k in &reads {
                r.push(match k {
                    0 => SOp::GetRange { from: 0, to: total + 8 },
                    1 => SOp::Scan { start: 0 },
                    2 => SOp::Get { idx: pre as u32 + at.min(n) as u32 },
                    3 => SOp::GetRange { from: (pre as u32 + at.min(n) as u32).saturating_sub(2), to: pre as u32 + at.min(n) as u32 + 6 },
                    _ => SOp::Scan { start: pre as u32 },
                });
            }
            r.push(SOp::SetFlag { k: 1 });
            r.push(SOp::Scan { start: 0 });
            let mut threads = vec![w, r];
            if third {
                threads.push(vec![SOp::Push { n: 20 }, SOp::WaitFlag { k: 0 }, SOp::Extend { n: 40 }, SOp::GetRange { from: 0, to: total + 70 }]);
            }
            Script { nucleo: false, capacity, columns, pool_threads: 1, threads }
        })
        .boxed()
}

/// two writers that both need a bucket nobody has allocated yet, released together right before the CAS
fn alloc_race_threads(capacity: u32, over: u16, tail: u16) -> Vec<Vec<SOp>> {
    // bucket k covers [32*(2^k-1), 32*(2^(k+1)-1)); with capacity <= 32 only bucket 0 exists, else buckets 0..1
    let (start, len) = if capacity <= 32 { (0u32, 32u32) } else { (32u32, 64u32) };
    // fill up to a position that does not trigger the eager allocation of the next bucket
    let fill = (start + len - len / 8 - 4) as u16;
    // each racing extend starts inside the current bucket or already in the next one and ends in the next one
    let n = (len / 8) as u16 + 8 + over;
    let a = vec![SOp::GateCas { len: len * 2, parties: 2 }, SOp::Extend { n: fill }, SOp::SetFlag { k: 0 }, SOp::Extend { n }, SOp::SleepMs { ms: 3 }, SOp::Push { n: tail }];
    let b = vec![SOp::WaitFlag { k: 0 }, SOp::Extend { n }, SOp::SleepMs { ms: 3 }, SOp::Scan { start: 0 }];
    vec![a, b]
}

fn alloc_race_scenario() -> BoxedStrategy<Script> {
    // two writers are made to allocate the same bucket at the same time (rendezvous right before the
    // bucket CAS, relaxed polling): the loser then works inside the winner's bucket
    (proptest::sample::select(vec![0u32, 1, 33, 100]), 1u8..=2, 0u16..8, any::<bool>(), 0u16..30)
        .prop_map(|(capacity, columns, over, reader, tail)| {
            let (start, len) = if capacity <= 32 { (0u32, 32u32) } else { (32u32, 64u32) };
            let mut threads = alloc_race_threads(capacity, over, tail);
            if reader {
                threads.push(vec![SOp::WaitFlag { k: 0 }, SOp::SleepMs { ms: 1 }, SOp::GetRange { from: start + len - 6, to: start + len + 12 }, SOp::Scan { start: 0 }]);
            }
            Script { nucleo: false, capacity, columns, pool_threads: 1, threads }
        })
        .boxed()
}

fn nucleo_scenario() -> BoxedStrategy<Script> {
    // thread 0 owns the matcher (ticks, reads every matched item, edits the pattern, restarts);
    // writer threads inject, one of them held in flight after allocating a bucket
    (1u8..=3, 1u8..=2, prop_oneof![3 => Just(4064u16), 1 => 0u16..300, 1 => Just(2016u16)], 1u16..40, proptest::collection::vec(0u8..6, 2..=6), any::<bool>(), any::<bool>())
        .prop_map(|(pool_threads, columns, boundary, over, owner_ops, restart_first, second_writer)| {
            let mut owner = vec![];
            let mut writer = vec![];
            if restart_first {
                owner.push(SOp::Restart { clear: false });
                owner.push(SOp::SetFlag { k: 5 });
                writer.push(SOp::WaitFlag { k: 5 });
            }
            // the writer reaches the boundary inside one extend and is held right behind it
            let b = if restart_first && boundary == 4064 { 2016 } else { boundary };
            writer.push(SOp::ExtendHeld { n: b + over, at: b, set: 0, wait: 1 });
            writer.push(SOp::Push { n: 5 });
            owner.push(SOp::Reparse { text: 0 });
            owner.push(SOp::WaitFlag { k: 0 });
            for k in &owner_ops {
                owner.push(match k {
                    0 => SOp::Tick { timeout: 10 },
                    1 => SOp::Reparse { text: 2 },
                    2 => SOp::Tick { timeout: 0 },
                    3 => SOp::GetRange { from: b.saturating_sub(3) as u32, to: b as u32 + 8 },
                    4 => SOp::Reparse { text: 1 },
                    _ => SOp::SleepMs { ms: 3 },
                });
            }
            owner.push(SOp::Tick { timeout: 10 });
            owner.push(SOp::SetFlag { k: 1 });
            owner.push(SOp::SleepMs { ms: 5 });
            owner.push(SOp::Tick { timeout: 10 });
            owner.push(SOp::Reparse { text: 3 });
            owner.push(SOp::Tick { timeout: 10 });
            let mut threads = vec![owner, writer];
            if second_writer {
                threads.push(vec![SOp::WaitFlag { k: 0 }, SOp::Push { n: 30 }, SOp::Extend { n: 50 }, SOp::Scan { start: 0 }]);
            }
            Script { nucleo: !restart_first || true, capacity: 0, columns, pool_threads, threads }
        })
        .boxed()
}

#[derive(Debug)]
struct Report {
    relevant: bool,
    signature: String,
    text: String,
}

fn innermost_user_frame(stack: &[&str]) -> Option<String> {
    for l in stack {
        // "    #3 <nucleo::boxcar::Vec<T>>::get /repo/src/boxcar.rs:158:18 (vtsan+0x..)"
        let Some(rest) = l.trim_start().strip_prefix('#') else { continue };
        let func = rest.split_once(' ').map(|x| x.1).unwrap_or("");
        let skip = ["core::", "std::", "alloc::", "<core::", "<std::", "<alloc::", "__rust", "__tsan", "malloc", "free", "calloc", "realloc", "posix_memalign", "__rdl", "memcpy", "memset", "__rustc"];
        if skip.iter().any(|s| func.starts_with(s)) {
            continue;
        }
        return Some(func.to_string());
    }
    None
}

fn parse_reports(stderr: &str) -> Vec<Report> {
    let mut out = vec![];
    for block in stderr.split("==================") {
        if !block.contains("WARNING: ThreadSanitizer") {
            continue;
        }
        // split the block into stacks (paragraphs)
        let mut user_frames = vec![];
        for para in block.split("\n\n") {
            let lines: Vec<&str> = para.lines().filter(|l| l.trim_start().starts_with('#')).collect();
            if lines.is_empty() {
                continue;
            }
            let head = para.lines().next().unwrap_or("");
            if head.contains("Location is") || head.contains("Thread T") || head.contains("created by") {
                continue;
            }
            if let Some(f) = innermost_user_frame(&lines) {
                user_frames.push(f);
            }
        }
        let strip = |f: &str| {
            // function name without generic arguments and addresses
            let f = f.split(" /").next().unwrap_or(f).split(" (").next().unwrap_or(f);
            let mut depth = 0;
            let mut s = String::new();
            for ch in f.chars() {
                match ch {
                    '<' => depth += 1,
                    '>' => depth -= 1,
                    _ if depth <= 1 => s.push(ch),
                    _ => {}
                }
            }
            s
        };
        let relevant = user_frames.iter().any(|f| f.contains("nucleo::") || f.contains("nucleo_matcher::") || f.contains("vtsan::"));
        let mut names: Vec<String> = user_frames.iter().map(|f| strip(f)).collect();
        names.truncate(2);
        let kind = block.lines().find(|l| l.contains("WARNING: ThreadSanitizer")).map(|l| l.split("ThreadSanitizer: ").nth(1).unwrap_or("").split(" (pid").next().unwrap_or("").to_string()).unwrap_or_default();
        out.push(Report { relevant, signature: format!("{kind}:{}", names.join("|")), text: block.lines().take(14).collect::<Vec<_>>().join("\n") });
    }
    out
}

impl Check for C09 {
    type Case = Script;
    fn id(&self) -> &'static str {
        "C09"
    }
    fn shards(&self, _tier: Tier) -> usize {
        16
    }
    fn max_shrink_iters(&self) -> u32 {
        60
    }
    fn rule(&self) -> String {
        "generated scripts, each executed in its own process built with ThreadSanitizer (-Zsanitizer=thread, -Zbuild-std, release): (a) the raw item vector with capacity {0,1,32,33,100}: a writer (push / extend) held inside its fill callback at a generated position - typically the first slot of a bucket it has just allocated - while 1-2 other threads get / range-get / snapshot-scan around that position and a third thread injects concurrently; (b) a whole Nucleo with 1-3 pool threads: a writer held in flight right behind the 4064 / 2016 (after restart) bucket boundary while the owner thread ticks, reads every matched item, edits the pattern (rescore and tie-breaking comparator read items) and restarts, plus an optional second injector. Threads are sequenced only through relaxed atomics polled with sleeps (no lock/condvar/channel, which would add happens-before edges and mask races). Oracle: any ThreadSanitizer report whose innermost non-std frame lies in nucleo, nucleo_matcher or the script runner. Non-trivial: a script in which a reader thread reads entries of a bucket another thread allocated while that writer is still in flight. Distinct by script hash.".into()
    }
    fn assumptions(&self) -> Vec<String> {
        vec![
            "ThreadSanitizer judges only the executed schedules by the declared memory orderings; it models fences poorly and has bounded history (scripts are kept to a few thousand accesses)".into(),
            "weakening orderings on the `inflight` counter is not expected to be detectable (no data depends on it) and is not claimed".into(),
            "reports entirely inside rayon/crossbeam/parking_lot are listed separately and are not violations".into(),
        ]
    }
    fn total_cases(&self, tier: Tier) -> u64 {
        match tier {
            Tier::Quick => 160,
            Tier::Thorough => 4_000,
        }
    }
    fn templates(&self, _tier: Tier) -> Vec<Script> {
        let mut v = self.fixed_templates();
        for capacity in [0u32, 1, 33, 100] {
            for over in [0u16, 3] {
                v.push(Script { nucleo: false, capacity, columns: 1, pool_threads: 1, threads: alloc_race_threads(capacity, over, 0) });
            }
        }
        v
    }
    fn strategy(&self, _tier: Tier) -> BoxedStrategy<Script> {
        prop_oneof![45 => raw_scenario(), 20 => alloc_race_scenario(), 35 => nucleo_scenario()].boxed()
    }
    fn run(&self, sc: &Script) -> Outcome {
        self.run_script(sc)
    }
}

impl C09 {
    fn fixed_templates(&self) -> Vec<Script> {
        vec![
            // writer held at the first slot of the bucket it just allocated; reader gets and scans across it
            Script { nucleo: false, capacity: 1, columns: 1, pool_threads: 1, threads: vec![vec![SOp::ExtendHeld { n: 40, at: 32, set: 0, wait: 1 }], vec![SOp::WaitFlag { k: 0 }, SOp::GetRange { from: 30, to: 40 }, SOp::Scan { start: 0 }, SOp::SetFlag { k: 1 }]] },
            Script { nucleo: false, capacity: 1, columns: 2, pool_threads: 1, threads: vec![vec![SOp::Push { n: 32 }, SOp::PushHeld { set: 0, wait: 1 }], vec![SOp::WaitFlag { k: 0 }, SOp::Scan { start: 0 }, SOp::Get { idx: 32 }, SOp::Get { idx: 33 }, SOp::SetFlag { k: 1 }]] },
            // the recipe from the feasibility run: fresh Nucleo, extend of 4074 items held at 4064, tick reads the bucket
            Script { nucleo: true, capacity: 0, columns: 1, pool_threads: 2, threads: vec![vec![SOp::Reparse { text: 0 }, SOp::WaitFlag { k: 0 }, SOp::Tick { timeout: 10 }, SOp::GetRange { from: 4060, to: 4070 }, SOp::Reparse { text: 2 }, SOp::Tick { timeout: 10 }, SOp::SetFlag { k: 1 }, SOp::SleepMs { ms: 5 }, SOp::Tick { timeout: 10 }], vec![SOp::ExtendHeld { n: 4074, at: 4064, set: 0, wait: 1 }]] },
            Script { nucleo: true, capacity: 0, columns: 1, pool_threads: 3, threads: vec![vec![SOp::Restart { clear: true }, SOp::SetFlag { k: 5 }, SOp::Reparse { text: 0 }, SOp::WaitFlag { k: 0 }, SOp::Tick { timeout: 10 }, SOp::Reparse { text: 1 }, SOp::Tick { timeout: 10 }, SOp::SetFlag { k: 1 }, SOp::SleepMs { ms: 5 }, SOp::Tick { timeout: 10 }], vec![SOp::WaitFlag { k: 5 }, SOp::ExtendHeld { n: 2030, at: 2016, set: 0, wait: 1 }], vec![SOp::WaitFlag { k: 0 }, SOp::Push { n: 30 }]] },
            // an index handed over through a relaxed store, read through the unchecked getter: the only ordering is
            // the acquire load inside the getter
            Script { nucleo: true, capacity: 0, columns: 1, pool_threads: 1, threads: vec![vec![SOp::SleepMs { ms: 1 }], vec![SOp::Push { n: 3 }, SOp::PushTell { slot: 0 }, SOp::Push { n: 40 }, SOp::PushTell { slot: 1 }], vec![SOp::GetUncheckedTold { slot: 0 }, SOp::GetUncheckedTold { slot: 1 }]] },
            Script { nucleo: true, capacity: 0, columns: 2, pool_threads: 2, threads: vec![vec![SOp::Reparse { text: 0 }, SOp::Tick { timeout: 5 }, SOp::GetUncheckedTold { slot: 2 }, SOp::Tick { timeout: 5 }], vec![SOp::Extend { n: 2040 }, SOp::PushTell { slot: 2 }, SOp::PushTell { slot: 3 }], vec![SOp::GetUncheckedTold { slot: 3 }, SOp::GetUncheckedTold { slot: 2 }]] },
        ]
    }
    fn run_script(&self, sc: &Script) -> Outcome {
        let mut out = Outcome::default();
        let bin = vtsan_bin();
        if !bin.exists() {
            out.fail("runner-missing", format!("ThreadSanitizer runner not built: {}", bin.display()));
            return out;
        }
        let dir = verif_root().join("harness/run-tmp");
        let _ = std::fs::create_dir_all(&dir);
        let path = dir.join(format!("script-{}-{:016x}.json", std::process::id(), case_hash(sc)));
        std::fs::write(&path, serde_json::to_vec(sc).unwrap()).expect("write script");
        let mut child = std::process::Command::new(&bin)
            .arg(&path)
            .env("TSAN_OPTIONS", "history_size=7 halt_on_error=0 exitcode=66 second_deadlock_stack=0 report_signal_unsafe=0")
            .stdout(std::process::Stdio::null())
            .stderr(std::process::Stdio::piped())
            .spawn()
            .expect("spawn vtsan");
        let mut err = child.stderr.take().unwrap();
        let reader = std::thread::spawn(move || {
            let mut s = String::new();
            let _ = err.read_to_string(&mut s);
            s
        });
        let t0 = Instant::now();
        let status = loop {
            match child.try_wait() {
                Ok(Some(st)) => break Some(st),
                Ok(None) if t0.elapsed() > Duration::from_secs(60) => {
                    let _ = child.kill();
                    let _ = child.wait();
                    break None;
                }
                _ => std::thread::sleep(Duration::from_millis(5)),
            }
        };
        let stderr = reader.join().unwrap_or_default();
        let _ = std::fs::remove_file(&path);
        // labels
        let held = sc.threads.iter().flatten().any(|o| matches!(o, SOp::PushHeld { .. } | SOp::ExtendHeld { .. }));
        let reader_ops = sc.threads.iter().flatten().any(|o| matches!(o, SOp::Get { .. } | SOp::GetRange { .. } | SOp::Scan { .. } | SOp::Tick { .. }));
        out.nontrivial = held && reader_ops && sc.threads.len() >= 2;
        out.label(if sc.nucleo { "nucleo-script" } else { "raw-vector-script" });
        if sc.threads.iter().flatten().any(|o| matches!(o, SOp::GateCas { .. })) {
            out.label("two-writers-racing-to-install-a-bucket");
            out.nontrivial = true;
        }
        if sc.threads.iter().flatten().any(|o| matches!(o, SOp::Restart { .. })) {
            out.label("restart");
        }
        if sc.threads.iter().flatten().any(|o| matches!(o, SOp::Reparse { text } if *text != 0)) {
            out.label("rescore-while-writer-in-flight");
        }
        let Some(status) = status else {
            out.label("inconclusive(timeout)");
            return out;
        };
        let reports = parse_reports(&stderr);
        for r in &reports {
            if r.relevant {
                out.fail(r.signature.clone(), format!("ThreadSanitizer report:\n{}", r.text));
            } else {
                out.label("third-party-report(not-a-violation)");
            }
        }
        if out.fail.is_none() {
            if status.code() == Some(66) && reports.is_empty() {
                out.fail("tsan-report-unparsed", format!("ThreadSanitizer exit code 66 without a parsable report; stderr tail: {}", stderr.lines().rev().take(8).collect::<Vec<_>>().join(" | ")));
            } else if !status.success() && status.code() != Some(66) {
                out.fail("script-crashed", format!("the script process ended abnormally ({status:?}); stderr tail: {}", stderr.lines().rev().take(8).collect::<Vec<_>>().join(" | ")));
            }
        }
        out
    }
}
