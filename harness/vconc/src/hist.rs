//! C06 / C07 / C12 / C19 / C20: one history machine, five oracle sets, different generator bias.

use crate::machine::{history_strategy, templates, Bias, History, Machine};
use proptest::prelude::*;
use vcommon::driver::{Check, Outcome, Tier};

pub struct HistCheck {
    pub id: &'static str,
}

impl HistCheck {
    fn bias(&self) -> Bias {
        match self.id {
            "C07" => Bias::Quiesce,
            "C12" => Bias::Restarts,
            "C20" => Bias::Injectors,
            _ => Bias::General,
        }
    }
}

impl Check for HistCheck {
    type Case = History;
    fn id(&self) -> &'static str {
        self.id
    }
    fn isolate(&self) -> bool {
        true
    }
    fn max_shrink_iters(&self) -> u32 {
        600
    }
    fn rule(&self) -> String {
        let common = "generated operation histories on one Nucleo (1-4 worker threads, 1-3 columns, generated Config fixed per history): push / bulk push (crossing the 1024/2048 bucket boundaries) / writer threads held inside their fill callback (between index reservation and publication) / held extends / release, pattern edits (append char, delete last, replace, clear; append flag set exactly when the old text is a prefix), tick(0|1|10), restart(true|false), injector()/clone/drop (also on other threads), old injectors pushing, run held at / advanced to each of 8 phases through cfg-gated hook points (the last one: the spawned job after it released the lock, so that the next run is queued behind it), update_config, injector clone_from, reparse of the same text with other settings, scoring of one item held inside the parallel scan, adversarial ordering of in-flight pushes of two pool threads; 12% free-running histories. Tiers: committed regressions, then scenario templates (every named class occurs in every run), then random histories. ";
        let specific = match self.id {
            "C06" => "Oracle after every tick/restart: every match refers to an initialised item with intact canary, no duplicates, one stream, score == snapshot pattern's score on a fresh matcher, order (score desc, length asc, index asc / insertion order for the empty pattern), matched_items/get_matched_item agree, item_count consistent with a processed set, no uninitialised dereference (hooked get_unchecked). Non-trivial: history with a tick while a writer is in flight, a cancelled/held run, or an append-update.",
            "C07" => "Every history ends by releasing all writers, dropping all injectors and ticking until running == false; the snapshot must equal the from-scratch result (fresh MultiPattern + fresh Matcher over all published items of the current stream; same count, matches, scores, order). Non-trivial: quiescent history with an append-update, a held/cancelled run or an item published after being seen in flight, whose final pattern matches a proper non-empty subset.",
            "C12" => "Oracle: items carry their stream number; one stream per snapshot; restart(true) empties the snapshot immediately; after restart(false) the snapshot stays identical until it switches to the new stream, and it has switched once a tick finds the matcher idle; items of old injectors never appear; old injectors keep working. Non-trivial: restart while a run is in progress, or an old injector pushing after the restart.",
            "C19" => "Oracle: snapshot observed before and after every tick: changed == false implies identical (matches, item_count, pattern); running == false implies item_count >= pushes of the current stream completed before the call, snapshot pattern == matcher pattern, snapshot stream == current stream. Non-trivial: a tick returning running=false after a cancel or restart, or changed=false while a run is held.",
            _ => "Oracle: handle-counting model (live handles incl. clones held by writer threads, tagged with the stream they were created from) compared with active_injectors() after every operation. Non-trivial: a restart with a handle that outlives it, or a running tick after a restart.",
        };
        format!("{common}{specific} Distinct by hash of the whole history.")
    }
    fn assumptions(&self) -> Vec<String> {
        vec![
            "the matcher configuration is fixed for the lifetime of a history (update_config is outside the claim); per-column CaseMatching/Normalization change only through ReparseMode (same text, append = false)".into(),
            "append hints are truthful; iterators passed to extend are honest in these histories (lying iterators never let the matcher become idle and are exercised by C08/C11)".into(),
            "pool threads inside a parallel section run uncontrolled except for the ordered in-flight pushes and one held item".into(),
        ]
    }
    fn total_cases(&self, tier: Tier) -> u64 {
        match tier {
            Tier::Quick => 6_000,
            Tier::Thorough => 80_000,
        }
    }
    fn templates(&self, _tier: Tier) -> Vec<History> {
        templates()
    }
    fn strategy(&self, _tier: Tier) -> BoxedStrategy<History> {
        history_strategy(self.bias(), 28)
    }
    fn run(&self, h: &History) -> Outcome {
        let mut out = Outcome::default();
        let rep = Machine::new(h).run();
        for l in &rep.labels {
            out.label(l);
        }
        let has = |l: &str| rep.labels.iter().any(|x| *x == l);
        out.nontrivial = match self.id {
            "C06" => rep.ticks > 0 && (has("writer-held-in-flight") || has("run-held-at-phase") || has("append-update")),
            "C07" => has("quiescent") && has("final-pattern-matches-proper-subset") && (has("append-update") || has("run-held-at-phase") || has("writer-held-in-flight")),
            "C12" => has("restart-while-run-in-progress") || has("old-injector-pushes-after-restart"),
            "C19" => has("not-running-after-cancel-or-restart") || has("unchanged-while-running"),
            _ => has("history-with-restart") && (has("handle-outlives-restart") || has("running-tick-after-restart")),
        };
        if let Some(why) = &rep.inconclusive {
            out.label("inconclusive(timeout)");
            let _ = why;
        }
        for f in rep.findings {
            if f.prop == self.id {
                out.fail(f.sig, f.msg);
            }
        }
        out
    }
}
