//! C08 — the injector's item vector is a linearizable append-only sequence.
//!
//! 2-4 threads run generated op lists on the raw vector (through the verif-hooks facade). Every
//! atomic operation of the vector is a schedule point: all threads are parked there and exactly
//! one runs at a time, chosen by a generated schedule, so the execution is a serialized history.

use nucleo::verif::{site, RawVec};
use nucleo::Utf32String;
use parking_lot::{Condvar, Mutex};
use proptest::prelude::*;
use serde::{Deserialize, Serialize};
use std::collections::HashMap;
use std::sync::Arc;
use std::time::{Duration, Instant};
use vcommon::driver::{guarded, Check, Outcome, Tier};

pub struct C08;

#[derive(Clone, Debug, Serialize, Deserialize, Hash, PartialEq, Eq)]
pub enum VOp {
    Push,
    /// yields n items, reports n + lie
    Extend { n: u8, lie: i8 },
    /// lookup: 0 an assigned index (sel), 1 count, 2 count+1, 3 count-1, 4 a bucket boundary, 5 u32 extremes
    Get { kind: u8, sel: u16 },
    Count,
    Snapshot { sel: u16 },
    /// an iterator that yields nothing but reports u32::MAX - k items (k < 32): exhausts the index space
    /// without touching memory; later pushes must fail cleanly and the count must stay monotone
    ExtendHuge { k: u8 },
    /// a push whose fill callback panics (after filling): the index stays reserved and is never readable
    PushPanic,
}

#[derive(Clone, Debug, Serialize, Deserialize, Hash)]
pub struct SchedCase {
    pub capacity: u8,
    pub columns: u8,
    pub threads: Vec<Vec<VOp>>,
    /// 0: every step picks a thread; 1: run the current thread, switch at `changes`
    pub mode: u8,
    pub choices: Vec<u8>,
    pub changes: Vec<u16>,
    /// item type: 0 u64, 1 16-byte aligned, 2 64-byte aligned, 3 packed 9 bytes
    #[serde(default)]
    pub item_kind: u8,
}

#[derive(Clone, Debug, PartialEq)]
enum Res {
    Pushed(u32),
    Extended,
    Got(u32, Option<(u64, Vec<String>)>),
    Count(u32),
    Snap(u32, Vec<(u32, Option<u64>)>),
    Panicked(String),
}

#[derive(Clone, Debug)]
enum Ev {
    Site(u32, u64),
    Invoke(usize),
    Response(usize, Res),
}

struct Sched {
    log: Vec<(usize, Ev)>,
    waiting: Vec<bool>,
    finished: Vec<bool>,
    turn: Option<usize>,
    active: bool,
}

struct Ctl {
    s: Mutex<Sched>,
    cv: Condvar,
}
fn ctl() -> &'static Ctl {
    static C: std::sync::OnceLock<Ctl> = std::sync::OnceLock::new();
    C.get_or_init(|| Ctl { s: Mutex::new(Sched { log: vec![], waiting: vec![], finished: vec![], turn: None, active: false }), cv: Condvar::new() })
}
thread_local! {
    static ME: std::cell::Cell<Option<usize>> = const { std::cell::Cell::new(None) };
}

/// log an event and hand the turn back to the scheduler; returns when this thread is scheduled again
fn yield_point(ev: Ev) {
    let Some(me) = ME.with(|m| m.get()) else { return };
    let c = ctl();
    let mut s = c.s.lock();
    if !s.active {
        return;
    }
    s.log.push((me, ev));
    s.waiting[me] = true;
    s.turn = None;
    c.cv.notify_all();
    let t0 = Instant::now();
    while s.turn != Some(me) {
        c.cv.wait_for(&mut s, Duration::from_millis(100));
        if t0.elapsed() > Duration::from_secs(60) || !s.active {
            break;
        }
    }
    s.waiting[me] = false;
}

fn hook(s: u32, arg: u64) {
    if (site::BOXCAR_PUSH_RESERVE..=site::BOXCAR_PUBLISHED).contains(&s) {
        yield_point(Ev::Site(s, arg));
    }
}

fn value_of(thread: usize, op: usize, k: usize) -> u64 {
    ((thread as u64 + 1) << 40) | ((op as u64) << 20) | k as u64
}
fn cols_of(v: u64, cols: usize) -> Vec<String> {
    (0..cols).map(|c| format!("{v:x}.{c}")).collect()
}

/// item types of different size / alignment (the entry layout pads them differently against the columns)
pub trait Payload: Copy + Send + Sync + 'static {
    fn mk(v: u64) -> Self;
    fn val(&self) -> u64;
}
impl Payload for u64 {
    fn mk(v: u64) -> u64 {
        v
    }
    fn val(&self) -> u64 {
        *self
    }
}
#[derive(Clone, Copy)]
#[repr(align(16))]
pub struct Wide16(u64);
impl Payload for Wide16 {
    fn mk(v: u64) -> Self {
        Wide16(v)
    }
    fn val(&self) -> u64 {
        self.0
    }
}
#[derive(Clone, Copy)]
#[repr(align(64))]
pub struct Wide64(u64, u8);
impl Payload for Wide64 {
    fn mk(v: u64) -> Self {
        Wide64(v, 7)
    }
    fn val(&self) -> u64 {
        self.0
    }
}
/// 9 bytes, alignment 1
#[derive(Clone, Copy)]
#[repr(packed)]
pub struct Packed9(u64, u8);
impl Payload for Packed9 {
    fn mk(v: u64) -> Self {
        Packed9(v, 3)
    }
    fn val(&self) -> u64 {
        self.0
    }
}

struct Lying<T> {
    vals: std::vec::IntoIter<T>,
    reported: usize,
}
impl<T> Iterator for Lying<T> {
    type Item = T;
    fn next(&mut self) -> Option<T> {
        self.vals.next()
    }
}
impl<T> ExactSizeIterator for Lying<T> {
    fn len(&self) -> usize {
        self.reported
    }
}

const BOUNDARIES: [u32; 8] = [31, 32, 33, 95, 96, 97, 223, 224];

fn run_thread<T: Payload>(me: usize, ops: Vec<VOp>, v: Arc<RawVec<T>>, cols: usize) {
    ME.with(|m| m.set(Some(me)));
    yield_point(Ev::Site(0, 0)); // start parked
    for (k, op) in ops.iter().enumerate() {
        yield_point(Ev::Invoke(k));
        let res = match op {
            VOp::Push => {
                let val = T::mk(value_of(me, k, 0));
                match guarded(|| {
                    v.push(val, |x, cs| {
                        for (c, t) in cs.iter_mut().zip(cols_of(x.val(), cols)) {
                            *c = Utf32String::from(t.as_str());
                        }
                    })
                }) {
                    Ok(i) => Res::Pushed(i),
                    Err(p) => Res::Panicked(p),
                }
            }
            VOp::PushPanic => {
                let val = T::mk(value_of(me, k, 0));
                match guarded(|| {
                    v.push(val, |x, cs| {
                        for (c, t) in cs.iter_mut().zip(cols_of(x.val(), cols)) {
                            *c = Utf32String::from(t.as_str());
                        }
                        panic!("fill callback fault injection");
                    })
                }) {
                    Ok(i) => Res::Pushed(i),
                    Err(p) => Res::Panicked(p),
                }
            }
            VOp::Extend { n, lie } => {
                let vals: Vec<T> = (0..*n as usize).map(|j| T::mk(value_of(me, k, j))).collect();
                let reported = (*n as i32 + *lie as i32).max(0) as usize;
                match guarded(|| {
                    v.extend(Lying { vals: vals.into_iter(), reported }, |x, cs| {
                        for (c, t) in cs.iter_mut().zip(cols_of(x.val(), cols)) {
                            *c = Utf32String::from(t.as_str());
                        }
                    })
                }) {
                    Ok(()) => Res::Extended,
                    Err(p) => Res::Panicked(p),
                }
            }
            VOp::Get { kind, sel } => {
                let idx = match kind % 6 {
                    0 => {
                        let c = v.count().max(1);
                        *sel as u32 % c
                    }
                    1 => v.count(),
                    2 => v.count().wrapping_add(1),
                    3 => v.count().saturating_sub(1),
                    4 => BOUNDARIES[*sel as usize % BOUNDARIES.len()],
                    _ => u32::MAX - (*sel as u32 % 40),
                };
                match guarded(|| v.get(idx).map(|it| (it.data.val(), it.matcher_columns.iter().map(|c| c.to_string()).collect::<Vec<_>>()))) {
                    Ok(r) => Res::Got(idx, r),
                    Err(p) => Res::Panicked(format!("get({idx}): {p}")),
                }
            }
            VOp::ExtendHuge { k } => {
                let reported = u32::MAX as usize - (*k as usize % 32);
                match guarded(|| v.extend(Lying { vals: Vec::<T>::new().into_iter(), reported }, |_, _| {})) {
                    Ok(()) => Res::Extended,
                    Err(p) => Res::Panicked(p),
                }
            }
            VOp::Count => match guarded(|| v.count()) {
                Ok(c) => Res::Count(c),
                Err(p) => Res::Panicked(p),
            },
            VOp::Snapshot { sel } => {
                let cnt = v.count();
                // (after the index space was exhausted a full scan would have billions of entries)
                let start = if cnt > 1_000_000 { cnt - (*sel as u32 % 200) } else { (*sel as u32) % (cnt + 1) };
                match guarded(|| v.snapshot_bounded(start, 4096).1.into_iter().map(|(i, it)| (i, it.map(|x| x.data.val()))).collect::<Vec<_>>()) {
                    Ok(s) => Res::Snap(start, s),
                    Err(p) => Res::Panicked(p),
                }
            }
        };
        yield_point(Ev::Response(k, res));
    }
    let c = ctl();
    let mut s = c.s.lock();
    s.finished[me] = true;
    s.turn = None;
    c.cv.notify_all();
}

fn op_strategy() -> BoxedStrategy<VOp> {
    prop_oneof![
        30 => Just(VOp::Push),
        25 => (proptest::sample::select(vec![0u8, 1, 2, 31, 32, 33, 64, 97, 65, 95, 96]), prop_oneof![60 => Just(0i8), 20 => 1i8..40, 20 => -3i8..0]).prop_map(|(n, lie)| VOp::Extend { n, lie }),
        25 => (0u8..6, any::<u16>()).prop_map(|(kind, sel)| VOp::Get { kind, sel }),
        10 => Just(VOp::Count),
        10 => any::<u16>().prop_map(|sel| VOp::Snapshot { sel }),
        2 => (0u8..32).prop_map(|k| VOp::ExtendHuge { k }),
        5 => Just(VOp::PushPanic),
    ]
    .boxed()
}

impl Check for C08 {
    type Case = SchedCase;
    fn id(&self) -> &'static str {
        "C08"
    }
    fn isolate(&self) -> bool {
        true
    }
    fn max_shrink_iters(&self) -> u32 {
        800
    }
    fn rule(&self) -> String {
        "the raw item vector (facade), initial capacity {0,1,32,33,100}, 1-3 columns, item types of 8 bytes / 16-byte aligned / 64-byte aligned / packed 9 bytes, 2-4 threads with up to 6 ops each: push, push with a panicking fill callback, extend(n in {0,1,2,31,32,33,64,65,95,96,97}; templates with batches ending exactly on a bucket boundary) with iterators reporting n+-k, get (assigned index / count / count+-1 / bucket boundaries / u32 extremes), count, snapshot scan; the schedule is a generated value: every atomic operation of the vector is a hook point where all threads park and exactly one is released (uniform random choices, or run-to-completion with generated preemption points). Oracle over the serialized event log: reserved index ranges are pairwise disjoint and tile [0, final count); get returns None or exactly (value, columns) of the operation that owns the index, Some once the owning push/extend has returned, never Some for an unassigned or never-yielded index; count never decreases and is >= completed pushes; snapshot scans yield each index of [start, end) once in order; no panic except the documented one for an iterator that yields more than it reported. Non-trivial: >= 2 context switches inside one push/extend and (two threads racing to allocate the same bucket, or a get between reservation and publication of its index, or an extend crossing a bucket boundary).".into()
    }
    fn assumptions(&self) -> Vec<String> {
        vec!["sequentially consistent interleavings at the granularity of the vector's atomic operations (weak-memory effects belong to C09)".into()]
    }
    fn total_cases(&self, tier: Tier) -> u64 {
        match tier {
            Tier::Quick => 8_000,
            Tier::Thorough => 600_000,
        }
    }
    fn templates(&self, _tier: Tier) -> Vec<SchedCase> {
        let mut v = vec![];
        // exhaustive-ish small configurations: 2 threads x 1 op, all alternation patterns of 12 steps
        for (a, b) in [(VOp::Push, VOp::Push), (VOp::Push, VOp::Get { kind: 0, sel: 0 }), (VOp::Extend { n: 33, lie: 0 }, VOp::Push), (VOp::Extend { n: 2, lie: 1 }, VOp::Get { kind: 1, sel: 0 })] {
            for mask in 0..64u32 {
                let choices: Vec<u8> = (0..12).map(|i| ((mask >> (i % 6)) & 1) as u8).collect();
                v.push(SchedCase { capacity: 0, columns: 1, threads: vec![vec![a.clone()], vec![b.clone()]], mode: 0, choices, changes: vec![], item_kind: (mask % 4) as u8 });
            }
        }
        // the push that draws the threshold index of a bucket (28 of the first 32) allocates the next bucket eagerly;
        // hold it at each of the steps 40..130 of its thread (the pre-fill takes about 60) while another thread fills the rest of the bucket and crosses into
        // the next one (C09-r5-1 published the eager allocation with a plain store over the other thread's bucket)
        for s in 40..=130u16 {
            for (k, other) in [vec![VOp::Extend { n: 5, lie: 0 }], vec![VOp::Push, VOp::Push, VOp::Push, VOp::Push, VOp::Push]].into_iter().enumerate() {
                let mut choices = vec![1u8; 128];
                choices[0] = 0;
                v.push(SchedCase { capacity: 0, columns: 1, threads: vec![vec![VOp::Extend { n: 27, lie: 0 }, VOp::Push, VOp::Push], other], mode: 1, choices, changes: vec![s], item_kind: ((s as usize + k) % 4) as u8 });
            }
        }
        // lookups at the extremes of the index space
        // exhausting the index space: the count must never decrease, lookups must not panic
        for k in [0u8, 5, 31] {
            v.push(SchedCase { capacity: 0, columns: 1, threads: vec![vec![VOp::Push, VOp::Count, VOp::ExtendHuge { k }, VOp::Count, VOp::Push, VOp::Count, VOp::Push, VOp::Count, VOp::Extend { n: 2, lie: 0 }, VOp::Count], vec![VOp::Count, VOp::Push, VOp::Count, VOp::Get { kind: 5, sel: 3 }, VOp::Count, VOp::Push, VOp::Count]], mode: 0, choices: vec![0, 1, 0, 0, 1, 1, 0, 1], changes: vec![], item_kind: 0 });
        }
        // a push whose fill panics while another push reserves and completes, every alternation
        for mask in 0..64u32 {
            let choices: Vec<u8> = (0..12).map(|i| ((mask >> (i % 6)) & 1) as u8).collect();
            v.push(SchedCase { capacity: 0, columns: 1, threads: vec![vec![VOp::PushPanic, VOp::Count, VOp::Push, VOp::Count], vec![VOp::Push, VOp::Count, VOp::Push, VOp::Get { kind: 3, sel: 0 }]], mode: 0, choices, changes: vec![], item_kind: 0 });
        }
        // batches that span several buckets and end exactly on a bucket boundary (32 | 96 | 224), every item type, odd and even column counts
        for (pre, n) in [(0u8, 96u8), (1, 95), (31, 65), (2, 222), (0, 32), (10, 86)] {
            for item_kind in 0..4u8 {
                for columns in 1..=2u8 {
                    let mut t0 = vec![VOp::Extend { n: pre, lie: 0 }, VOp::Extend { n, lie: 0 }, VOp::Push, VOp::Count];
                    if pre == 1 {
                        t0[0] = VOp::Push;
                    }
                    v.push(SchedCase { capacity: 0, columns, threads: vec![t0, vec![VOp::Count, VOp::Get { kind: 4, sel: 3 }, VOp::Snapshot { sel: 0 }, VOp::Get { kind: 3, sel: 0 }]], mode: 1, choices: vec![0, 1], changes: vec![40, 200, 600], item_kind });
                }
            }
        }
        v.push(SchedCase { capacity: 1, columns: 1, threads: vec![vec![VOp::Push, VOp::Get { kind: 5, sel: 0 }, VOp::Get { kind: 5, sel: 31 }, VOp::Get { kind: 5, sel: 32 }, VOp::Get { kind: 5, sel: 33 }], vec![VOp::Count]], mode: 1, choices: vec![0], changes: vec![], item_kind: 0 });
        v
    }
    fn strategy(&self, _tier: Tier) -> BoxedStrategy<SchedCase> {
        (proptest::sample::select(vec![0u8, 1, 32, 33, 100]), 1u8..=3, proptest::collection::vec(proptest::collection::vec(op_strategy(), 1..=6), 2..=4), 0u8..2, proptest::collection::vec(any::<u8>(), 0..200), proptest::collection::vec(0u16..400, 0..6), prop_oneof![55 => Just(0u8), 15 => Just(1u8), 15 => Just(2u8), 15 => Just(3u8)])
            .prop_map(|(capacity, columns, threads, mode, choices, mut changes, item_kind)| {
                changes.sort();
                SchedCase { capacity, columns, threads, mode, choices, changes, item_kind }
            })
            .boxed()
    }
    fn run(&self, c: &SchedCase) -> Outcome {
        match c.item_kind % 4 {
            0 => run_typed::<u64>(c),
            1 => run_typed::<Wide16>(c),
            2 => run_typed::<Wide64>(c),
            _ => run_typed::<Packed9>(c),
        }
    }
}

fn run_typed<T: Payload>(c: &SchedCase) -> Outcome {
    {
        let mut out = Outcome::default();
        if c.item_kind % 4 != 0 {
            out.label(["", "items-aligned-16", "items-aligned-64", "items-packed-9-bytes"][c.item_kind as usize % 4]);
        }
        let n = c.threads.len();
        let cols = c.columns.max(1) as usize;
        // another vector with a smaller item type and the same column count lives and dies first in this
        // process: nothing about one instantiation may leak into another (shared statics in generic code)
        {
            let decoy: RawVec<u16> = RawVec::with_capacity(c.capacity as u32, cols as u32);
            for k in 0..3u16 {
                decoy.push(k, |_, cs| {
                    for c in cs.iter_mut() {
                        *c = Utf32String::from("decoy");
                    }
                });
            }
            if decoy.get(1).map(|it| *it.data) != Some(1) {
                out.fail("final-content", "a three-item vector of u16 does not return its second item".to_string());
            }
        }
        {
            let mut s = ctl().s.lock();
            *s = Sched { log: vec![], waiting: vec![false; n], finished: vec![false; n], turn: None, active: true };
        }
        nucleo::verif::set_hook(Some(hook));
        let v: Arc<RawVec<T>> = Arc::new(RawVec::with_capacity(c.capacity as u32, cols as u32));
        let mut handles = vec![];
        for (t, ops) in c.threads.iter().enumerate() {
            let v = v.clone();
            let ops = ops.clone();
            handles.push(std::thread::spawn(move || run_thread::<T>(t, ops, v, cols)));
        }
        // ---- scheduler -------------------------------------------------------------------------
        let ctlr = ctl();
        let mut step = 0usize;
        let mut current: Option<usize> = None;
        let mut timed_out = false;
        let t0 = Instant::now();
        loop {
            let mut s = ctlr.s.lock();
            // wait until every unfinished thread is parked and nobody holds the turn
            while !(s.turn.is_none() && (0..n).all(|t| s.finished[t] || s.waiting[t])) {
                ctlr.cv.wait_for(&mut s, Duration::from_millis(50));
                if t0.elapsed() > Duration::from_secs(30) {
                    timed_out = true;
                    break;
                }
            }
            if timed_out {
                s.active = false;
                ctlr.cv.notify_all();
                break;
            }
            let runnable: Vec<usize> = (0..n).filter(|&t| !s.finished[t]).collect();
            if runnable.is_empty() {
                break;
            }
            let pick = |k: usize| runnable[c.choices.get(k % c.choices.len().max(1)).copied().unwrap_or(0) as usize % runnable.len()];
            let next = if c.mode % 2 == 0 {
                pick(step)
            } else {
                let switch = c.changes.iter().any(|&x| x as usize == step);
                match current {
                    Some(t) if !s.finished[t] && !switch => t,
                    _ => pick(step),
                }
            };
            current = Some(next);
            step += 1;
            s.turn = Some(next);
            ctlr.cv.notify_all();
        }
        for h in handles {
            let _ = h.join();
        }
        nucleo::verif::set_hook(None);
        let log = {
            let mut s = ctlr.s.lock();
            s.active = false;
            std::mem::take(&mut s.log)
        };
        if timed_out {
            out.label("inconclusive(timeout)");
            return out;
        }
        let final_count = v.count();
        judge(c, &log, final_count, &v, cols, &mut out);
        out
    }
}

fn judge<T: Payload>(c: &SchedCase, log: &[(usize, Ev)], final_count: u32, v: &RawVec<T>, cols: usize, out: &mut Outcome) {
    // ---- reservations ------------------------------------------------------------------------------
    // (start, reported, yielded, thread, op)
    let mut ranges: Vec<(u32, u32, u32, usize, usize)> = vec![];
    let mut cur_op: Vec<Option<usize>> = vec![None; c.threads.len()];
    let mut invoke_seq: HashMap<(usize, usize), usize> = HashMap::new();
    let mut response_seq: HashMap<(usize, usize), usize> = HashMap::new();
    let mut switches_inside: HashMap<(usize, usize), u32> = HashMap::new();
    let mut last_thread: Option<usize> = None;
    let mut cas: Vec<(usize, u64)> = vec![];
    let mut reserved_at: HashMap<u32, usize> = HashMap::new();
    let mut published_at: HashMap<u32, usize> = HashMap::new();
    let mut get_loads: Vec<(usize, u32)> = vec![];
    for (seq, (t, ev)) in log.iter().enumerate() {
        if let Some(lt) = last_thread {
            if lt != *t {
                // a context switch: count it for every push/extend currently in progress on other threads
                for (ot, op) in cur_op.iter().enumerate() {
                    if let Some(op) = op {
                        if matches!(c.threads[ot][*op], VOp::Push | VOp::PushPanic | VOp::Extend { .. }) {
                            *switches_inside.entry((ot, *op)).or_insert(0) += 1;
                        }
                    }
                }
            }
        }
        last_thread = Some(*t);
        match ev {
            Ev::Invoke(k) => {
                cur_op[*t] = Some(*k);
                invoke_seq.insert((*t, *k), seq);
            }
            Ev::Response(k, _) => {
                cur_op[*t] = None;
                response_seq.insert((*t, *k), seq);
            }
            Ev::Site(s, arg) => {
                let Some(op) = cur_op[*t] else { continue };
                match *s {
                    x if x == site::BOXCAR_PUSH_RESERVED => {
                        let yielded = if matches!(c.threads[*t][op], VOp::PushPanic) { 0 } else { 1 };
                        ranges.push((*arg as u32, 1, yielded, *t, op));
                        reserved_at.insert(*arg as u32, seq);
                    }
                    x if x == site::BOXCAR_EXTEND_RESERVED => {
                        if let VOp::ExtendHuge { .. } = &c.threads[*t][op] {
                            // reserves everything up to the end of the index space and yields nothing
                            if let VOp::ExtendHuge { k } = &c.threads[*t][op] {
                                ranges.push((*arg as u32, (u32::MAX - (*k as u32 % 32)).min(u32::MAX - *arg as u32), 0, *t, op));
                            }
                        }
                        if let VOp::Extend { n, lie } = &c.threads[*t][op] {
                            let reported = (*n as i32 + *lie as i32).max(0) as u32;
                            ranges.push((*arg as u32, reported, (*n as u32).min(reported), *t, op));
                            for i in 0..reported {
                                reserved_at.insert((*arg as u32).wrapping_add(i), seq);
                            }
                        }
                    }
                    x if x == site::BOXCAR_PUBLISHED => {
                        published_at.insert(*arg as u32, seq);
                    }
                    x if x == site::BOXCAR_CAS => cas.push((*t, *arg)),
                    x if x == site::BOXCAR_GET_LOAD => get_loads.push((seq, *arg as u32)),
                    _ => {}
                }
            }
        }
    }
    let ctx = format!("case {c:?}");
    let has_huge = c.threads.iter().flatten().any(|o| matches!(o, VOp::ExtendHuge { .. }));
    if has_huge {
        out.label("index-space-exhausted");
    }
    // ---- disjoint, gap-free ------------------------------------------------------------------------------
    let mut sorted = ranges.clone();
    sorted.sort();
    let mut next = 0u32;
    for r in &sorted {
        if r.1 == 0 {
            continue;
        }
        if has_huge && r.0 >= next {
            // behind an exhausted index space reservations fail; only overlaps are judged
            next = r.0.saturating_add(r.1);
            continue;
        }
        if r.0 != next {
            out.fail(if r.0 < next { "overlapping-indices" } else { "index-gap" }, format!("reserved index ranges do not tile the index space: range starting at {} (len {}) follows {next}; ranges {:?}; {ctx}", r.0, r.1, sorted));
            return;
        }
        next = r.0.saturating_add(r.1);
    }
    if next != final_count && !has_huge {
        out.fail("count-vs-reservations", format!("final count {final_count} but the reservations cover [0, {next}); {ctx}"));
    }
    // expected content per index
    let mut expect: HashMap<u32, u64> = HashMap::new();
    for r in &ranges {
        let panicked = response_seq.get(&(r.3, r.4)).map_or(true, |&rs| matches!(log[rs].1, Ev::Response(_, Res::Panicked(_))));
        if panicked && has_huge && r.0 >= u32::MAX - 64 {
            // a reservation behind the end of the index space: the operation failed, nothing was written
            continue;
        }
        for k in 0..r.2 {
            expect.insert(r.0.wrapping_add(k), value_of(r.3, r.4, k as usize));
        }
    }
    // ---- responses ---------------------------------------------------------------------------------------
    let mut last_count: Option<u32> = None;
    for (seq, (t, ev)) in log.iter().enumerate() {
        let Ev::Response(k, res) = ev else { continue };
        let inv = invoke_seq[&(*t, *k)];
        match res {
            Res::Panicked(p) => {
                let allowed = matches!(&c.threads[*t][*k], VOp::Extend { lie, .. } if *lie < 0) || (matches!(&c.threads[*t][*k], VOp::PushPanic) && p.contains("fault injection")) || (has_huge && (p.contains("maximum") || p.contains("overflow")) && !matches!(&c.threads[*t][*k], VOp::Get { .. } | VOp::Count | VOp::Snapshot { .. }));
                if !allowed {
                    let sig = if p.contains("exceeded maximum length") { "lookup-panics-at-index-space-end".to_string() } else { format!("panic:{}", p.rsplit(" at ").next().unwrap_or("")) };
                    out.fail(sig, format!("thread {t} op #{k} {:?} panicked: {p}; {ctx}", c.threads[*t][*k]));
                }
            }
            Res::Pushed(_) if matches!(&c.threads[*t][*k], VOp::PushPanic) => {
                out.fail("panic-swallowed", format!("thread {t} op #{k}: push returned although its fill callback panicked; {ctx}"));
            }
            Res::Pushed(i) => {
                let owner = ranges.iter().find(|r| r.3 == *t && r.4 == *k);
                if owner.map(|r| r.0) != Some(*i) {
                    out.fail("push-returned-wrong-index", format!("thread {t} push returned {i} but reserved {:?}; {ctx}", owner.map(|r| r.0)));
                }
            }
            Res::Got(i, r) => match r {
                Some((val, cs)) => match expect.get(i) {
                    None => out.fail("lookup-of-unassigned-index", format!("get({i}) returned a value although no push/extend owns (or ever filled) that index; {ctx}")),
                    Some(e) => {
                        if val != e || *cs != cols_of(*e, cols) {
                            out.fail("lookup-wrong-content", format!("get({i}) returned value {val:x} columns {cs:?}, expected {e:x} {:?}; {ctx}", cols_of(*e, cols)));
                        }
                    }
                },
                None => {
                    // must be Some if the owning op had returned before this lookup was invoked
                    if let Some(r) = ranges.iter().find(|r| *i >= r.0 && (*i as u64) < r.0 as u64 + r.2 as u64) {
                        if response_seq.get(&(r.3, r.4)).map_or(false, |&rs| rs < inv) && !matches!(log[response_seq[&(r.3, r.4)]].1, Ev::Response(_, Res::Panicked(_))) {
                            out.fail("completed-push-not-visible", format!("get({i}) returned None although the push/extend that owns the index had already returned; {ctx}"));
                        }
                    }
                }
            },
            Res::Count(n) => {
                if let Some(l) = last_count {
                    if *n < l {
                        out.fail("count-decreased", format!("count went from {l} to {n}; {ctx}"));
                    }
                }
                last_count = Some(*n);
                let completed: u32 = ranges.iter().filter(|r| response_seq.get(&(r.3, r.4)).map_or(false, |&rs| rs < inv)).map(|r| r.2).sum();
                if *n < completed {
                    out.fail("count-below-completed-pushes", format!("count() = {n} but {completed} items had been completely pushed before the call; {ctx}"));
                }
            }
            Res::Snap(start, items) => {
                for (k, (i, val)) in items.iter().enumerate() {
                    if *i as u64 != *start as u64 + k as u64 {
                        out.fail("snapshot-order", format!("snapshot from {start} yielded index {i} at position {k}; {ctx}"));
                        break;
                    }
                    if let Some(val) = val {
                        if expect.get(i) != Some(val) {
                            out.fail("snapshot-wrong-content", format!("snapshot yielded {val:x} at index {i}, expected {:?}; {ctx}", expect.get(i)));
                        }
                    } else if let Some(r) = ranges.iter().find(|r| *i >= r.0 && (*i as u64) < r.0 as u64 + r.2 as u64) {
                        if response_seq.get(&(r.3, r.4)).map_or(false, |&rs| rs < inv) && !matches!(log[response_seq[&(r.3, r.4)]].1, Ev::Response(_, Res::Panicked(_))) {
                            out.fail("snapshot-misses-completed-push", format!("snapshot yielded None for index {i} whose push had returned; {ctx}"));
                        }
                    }
                }
                if *start as u64 + items.len() as u64 > final_count as u64 {
                    out.fail("snapshot-beyond-count", format!("snapshot from {start} yielded {} entries, final count {final_count}; {ctx}", items.len()));
                }
            }
            Res::Extended => {}
        }
        let _ = seq;
    }
    // final state: every yielded item is there, forever at the same index
    for (i, e) in &expect {
        let owner = ranges.iter().find(|r| *i >= r.0 && (*i as u64) < r.0 as u64 + r.2 as u64).unwrap();
        let panicked = response_seq.get(&(owner.3, owner.4)).map_or(true, |&rs| matches!(log[rs].1, Ev::Response(_, Res::Panicked(_))));
        match v.get(*i) {
            Some(it) if it.data.val() == *e => {}
            Some(it) => out.fail("final-content", format!("index {i} finally holds {:x}, expected {e:x}; {ctx}", it.data.val())),
            None if panicked => {}
            None => out.fail("final-content", format!("index {i} is finally empty, expected {e:x}; {ctx}")),
        }
    }
    // ---- labels ---------------------------------------------------------------------------------------------
    let many_switches = switches_inside.values().any(|&n| n >= 2);
    let racing_alloc = cas.iter().any(|(t, l)| cas.iter().any(|(t2, l2)| t2 != t && l2 == l));
    let get_in_flight = get_loads.iter().any(|(seq, i)| reserved_at.get(i).map_or(false, |r| r < seq) && published_at.get(i).map_or(true, |p| p > seq));
    let crossing = ranges.iter().any(|r| r.1 > 1 && [32u32, 96, 224, 480].iter().any(|b| r.0 < *b && r.0 as u64 + r.1 as u64 > *b as u64));
    if many_switches {
        out.label("context-switches-inside-push/extend");
    }
    if racing_alloc {
        out.label("two-threads-allocating-the-same-bucket");
    }
    if get_in_flight {
        out.label("get-between-reservation-and-publication");
    }
    if crossing {
        out.label("extend-crosses-bucket-boundary");
    }
    out.nontrivial = many_switches && (racing_alloc || get_in_flight || crossing);
}
