//! Tracked item payloads, the drop ledger and a counting allocator for column memory.

use parking_lot::Mutex;
use std::alloc::{GlobalAlloc, Layout, System};
use std::collections::HashMap;
use std::sync::atomic::{AtomicI64, AtomicU64, Ordering};

pub const MAGIC: u64 = 0x5EED_CAFE_F00D_1234;
pub const DEAD: u64 = 0xDEAD_DEAD_DEAD_DEAD;

static EPOCH: AtomicU64 = AtomicU64::new(0);
static LEDGER: Mutex<Option<HashMap<u64, u32>>> = Mutex::new(None);
static NEXT_ID: AtomicU64 = AtomicU64::new(1);

pub struct Tracked {
    pub id: u64,
    pub stream: u32,
    pub canary: u64,
    epoch: u64,
}

impl Tracked {
    pub fn new(stream: u32) -> Tracked {
        let id = NEXT_ID.fetch_add(1, Ordering::Relaxed);
        Tracked { id, stream, canary: id ^ MAGIC, epoch: EPOCH.load(Ordering::Relaxed) }
    }
    pub fn intact(&self) -> bool {
        self.canary == self.id ^ MAGIC
    }
}
impl Drop for Tracked {
    fn drop(&mut self) {
        if self.epoch == EPOCH.load(Ordering::Relaxed) {
            if let Some(l) = LEDGER.lock().as_mut() {
                *l.entry(self.id).or_insert(0) += 1;
            }
        }
        self.canary = DEAD;
    }
}

/// start a new case: earlier payloads (leaked threads of abandoned cases) are ignored from now on
pub fn reset_ledger() {
    EPOCH.fetch_add(1, Ordering::Relaxed);
    NEXT_ID.store(1, Ordering::Relaxed);
    *LEDGER.lock() = Some(HashMap::new());
}
pub fn drops_of(id: u64) -> u32 {
    LEDGER.lock().as_ref().and_then(|l| l.get(&id).copied()).unwrap_or(0)
}
pub fn ledger_snapshot() -> HashMap<u64, u32> {
    LEDGER.lock().clone().unwrap_or_default()
}

// ---------------------------------------------------------------------------------------------
// counting allocator: live heap blocks whose size falls into the "column band". Column texts
// generated for the drop checks have lengths in that band, nothing else in the harness does.
// ---------------------------------------------------------------------------------------------
pub const BAND_LO: usize = 3001;
pub const BAND_HI: usize = 3400;
pub static BAND_LIVE: AtomicI64 = AtomicI64::new(0);
/// odd sizes only: vectors of 8/16/32-byte elements and doubling byte buffers never have them
#[inline]
fn in_band(size: usize) -> bool {
    size >= BAND_LO && size <= BAND_HI && size % 2 == 1
}

pub struct Counting;
unsafe impl GlobalAlloc for Counting {
    unsafe fn alloc(&self, l: Layout) -> *mut u8 {
        if in_band(l.size()) {
            BAND_LIVE.fetch_add(1, Ordering::Relaxed);
        }
        System.alloc(l)
    }
    unsafe fn dealloc(&self, p: *mut u8, l: Layout) {
        if in_band(l.size()) {
            BAND_LIVE.fetch_sub(1, Ordering::Relaxed);
        }
        System.dealloc(p, l)
    }
    unsafe fn alloc_zeroed(&self, l: Layout) -> *mut u8 {
        if in_band(l.size()) {
            BAND_LIVE.fetch_add(1, Ordering::Relaxed);
        }
        System.alloc_zeroed(l)
    }
    unsafe fn realloc(&self, p: *mut u8, l: Layout, new: usize) -> *mut u8 {
        let was = in_band(l.size());
        let is = in_band(new);
        if was && !is {
            BAND_LIVE.fetch_sub(1, Ordering::Relaxed);
        } else if !was && is {
            BAND_LIVE.fetch_add(1, Ordering::Relaxed);
        }
        System.realloc(p, l, new)
    }
}

/// a column text whose heap block falls into the band (ASCII => Box<str> of exactly `len` bytes)
pub fn band_text(sel: u16) -> String {
    let len = BAND_LO + 6 + 2 * (sel as usize % 150);
    let mut s = String::with_capacity(len);
    for i in 0..len {
        s.push((b'a' + ((i + sel as usize) % 3) as u8) as char);
    }
    s
}
