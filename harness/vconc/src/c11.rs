//! C11 — every injected item is dropped exactly once, and only after it is unreachable.

use crate::gate;
use crate::payload::{self, band_text, Tracked, BAND_LIVE};
use nucleo::pattern::{CaseMatching, Normalization};
use nucleo::verif::RawVec;
use nucleo::{Config, Injector, Nucleo, Utf32String};
use proptest::prelude::*;
use serde::{Deserialize, Serialize};
use std::collections::HashSet;
use std::sync::atomic::Ordering;
use std::sync::Arc;
use std::time::Duration;
use vcommon::driver::{guarded, Check, Outcome, Tier};

pub struct C11;

#[derive(Clone, Debug, Serialize, Deserialize, Hash)]
pub enum DOp {
    Push { text: u16, panic: bool },
    /// yields `n` items, reports `n + lie` (clamped at 0); fill panics at item `panic_at` (if < n)
    Extend { n: u8, lie: i16, panic_at: u8, text: u16 },
    Get { sel: u16 },
    Tick,
    Restart { clear: bool },
    NewInjector,
    CloneInjector { sel: u8 },
    DropInjector { sel: u8, on_thread: bool },
    Reparse { sel: u8 },
    /// raw vector only: two writer threads are made to allocate the same bucket at the same time
    /// (both parked right before the bucket CAS, then released together)
    Race { extra: u8 },
    /// tick until the matcher reports that it is idle (bounded), then the streams nothing can
    /// reach any more must be gone
    Settle,
    /// raw vector only: an iterator that reports u32::MAX - k items and yields none (the reservation counter
    /// leaves the 32-bit range; later pushes fail); everything stored before must still be destroyed once
    ExtendHuge { k: u8 },
}

#[derive(Clone, Debug, Serialize, Deserialize, Hash)]
pub struct DropCase {
    /// false: the raw vector through the facade; true: a whole Nucleo
    pub nucleo: bool,
    pub capacity: u16,
    pub columns: u8,
    pub threads: u8,
    pub ops: Vec<DOp>,
    pub drop_on_thread: bool,
    /// items are plain `u64`s (no drop glue): only the column blocks are watched
    #[serde(default)]
    pub plain: bool,
}

struct Lying<T = Tracked> {
    inner: std::vec::IntoIter<T>,
    reported: usize,
}
impl<T> Iterator for Lying<T> {
    type Item = T;
    fn next(&mut self) -> Option<T> {
        self.inner.next()
    }
    fn size_hint(&self) -> (usize, Option<usize>) {
        (self.reported, Some(self.reported))
    }
}
impl<T> ExactSizeIterator for Lying<T> {
    fn len(&self) -> usize {
        self.reported
    }
}

struct St {
    /// ids handed to push or yielded... (all created ids must end with exactly one drop)
    created: Vec<u64>,
    /// (id, stream) of everything created
    created_in: Vec<(u64, u32)>,
    /// ids whose entry was published (fill completed), with the stream they live in
    published: Vec<(u64, u32)>,
    fails: Vec<(String, String)>,
    labels: Vec<&'static str>,
    any_panic: bool,
}

fn fill(texts: &[String], cols: &mut [Utf32String]) {
    for (c, t) in cols.iter_mut().zip(texts) {
        *c = t.as_str().into();
    }
}

fn do_push(push: &dyn Fn(Tracked, &dyn Fn(&Tracked, &mut [Utf32String])) -> u32, stream: u32, cols: usize, text: u16, panic: bool, st: &mut St) {
    let t = Tracked::new(stream);
    let id = t.id;
    st.created.push(id);
    st.created_in.push((id, stream));
    let texts: Vec<String> = (0..cols).map(|c| band_text(text.wrapping_add(c as u16))).collect();
    let r = guarded(|| {
        push(t, &|_, cs| {
            fill(&texts, cs);
            if panic {
                panic!("fill callback fault injection");
            }
        })
    });
    match r {
        Ok(_) => st.published.push((id, stream)),
        Err(_) => {
            st.any_panic = true;
            st.labels.push("fill-panic");
            let d = payload::drops_of(id);
            if d != 1 {
                st.fails.push(("panic-item-drop-count".into(), format!("the item whose fill callback panicked was dropped {d} times right after the panic (expected exactly once)")));
            }
        }
    }
}

#[allow(clippy::too_many_arguments)]
fn do_extend(extend: &dyn Fn(Lying, &dyn Fn(&Tracked, &mut [Utf32String])), stream: u32, cols: usize, n: usize, lie: i16, panic_at: usize, text: u16, st: &mut St) {
    let items: Vec<Tracked> = (0..n).map(|_| Tracked::new(stream)).collect();
    let ids: Vec<u64> = items.iter().map(|t| t.id).collect();
    st.created.extend(&ids);
    st.created_in.extend(ids.iter().map(|&id| (id, stream)));
    let reported = (n as i64 + lie as i64).max(0) as usize;
    let texts: Vec<String> = (0..cols).map(|c| band_text(text.wrapping_add(c as u16 * 3))).collect();
    let filled = std::cell::RefCell::new(Vec::new());
    let panic_id = ids.get(panic_at).copied();
    let r = guarded(|| {
        extend(Lying { inner: items.into_iter(), reported }, &|t, cs| {
            fill(&texts, cs);
            if Some(t.id) == panic_id {
                panic!("fill callback fault injection");
            }
            filled.borrow_mut().push(t.id);
        })
    });
    for id in filled.into_inner() {
        st.published.push((id, stream));
    }
    if lie != 0 {
        st.labels.push(if lie > 0 { "lying-iterator(more)" } else { "lying-iterator(fewer)" });
    }
    if r.is_err() {
        st.any_panic = true;
        if panic_id.is_some() && panic_at < reported.max(1) {
            st.labels.push("fill-panic");
        }
        // everything that was yielded but not published, and everything left in the iterator, is gone now
        let publ: HashSet<u64> = st.published.iter().map(|p| p.0).collect();
        for id in &ids {
            if !publ.contains(id) {
                let d = payload::drops_of(*id);
                if d != 1 {
                    st.fails.push(("unwound-item-drop-count".into(), format!("after a panicking extend an unpublished item of the batch was dropped {d} times (expected exactly once)")));
                }
            }
        }
    }
}

/// force two writers into get_or_alloc for the same (not yet allocated) bucket at the same time
fn race(v: &Arc<RawVec<Tracked>>, cols: usize, extra: u8, st: &mut St) {
    use nucleo::verif::site;
    // bucket k covers [32*(2^k-1), 32*(2^(k+1)-1)); the push of index start+len-len/8 allocates bucket k+1 eagerly
    let c = v.count();
    let mut k = 0u32;
    let (start, len) = loop {
        let start = 32 * ((1u32 << k) - 1);
        let len = 32u32 << k;
        if c <= start + len - len / 8 {
            break (start, len);
        }
        k += 1;
        if k > 6 {
            return;
        }
    };
    let eager = start + len - len / 8;
    while v.count() < eager {
        do_push(&|t, f| v.push(t, f), 0, cols, 7, false, st);
    }
    if v.count() != eager {
        return;
    }
    let next_len = (len as u64) << 1;
    gate::close_gate(site::BOXCAR_CAS, next_len);
    let mk = |n: usize, st: &mut St| -> Vec<(Tracked, Vec<String>)> {
        (0..n)
            .map(|j| {
                let t = Tracked::new(0);
                st.created.push(t.id);
                st.created_in.push((t.id, 0));
                st.published.push((t.id, 0));
                (t, (0..cols).map(|c| band_text(j as u16 * 5 + c as u16)).collect())
            })
            .collect()
    };
    let a_items = mk(1, st);
    let b_items = mk((len / 8) as usize + 4 + extra as usize % 20, st);
    let va = v.clone();
    let ha = std::thread::spawn(move || {
        for (t, texts) in a_items {
            va.push(t, |_, cs| fill(&texts, cs));
        }
    });
    let a_parked = gate::wait_parked_n(site::BOXCAR_CAS, next_len, 1, Duration::from_millis(120));
    let vb = v.clone();
    let hb = std::thread::spawn(move || {
        let texts: std::collections::HashMap<u64, Vec<String>> = b_items.iter().map(|(t, x)| (t.id, x.clone())).collect();
        let its: Vec<Tracked> = b_items.into_iter().map(|(t, _)| t).collect();
        vb.extend(its.into_iter(), |t, cs| fill(&texts[&t.id], cs));
    });
    let both = a_parked && gate::wait_parked_n(site::BOXCAR_CAS, next_len, 2, Duration::from_millis(400));
    gate::open_gate(site::BOXCAR_CAS, next_len);
    let _ = ha.join();
    let _ = hb.join();
    if both {
        st.labels.push("two-writers-allocating-one-bucket");
    }
}

fn check_alive(get: &dyn Fn(u32) -> Option<(u64, bool, usize)>, count: u32, st: &mut St, when: &str) {
    for i in 0..count.min(20000) {
        if let Some((id, intact, ncols)) = get(i) {
            if !intact {
                st.fails.push(("use-after-drop".into(), format!("{when}: index {i} is readable but its payload canary is damaged (dropped or uninitialised)")));
            } else if payload::drops_of(id) != 0 {
                st.fails.push(("dropped-while-reachable".into(), format!("{when}: item id {id} at index {i} has been dropped although a handle can still reach it")));
            }
            let _ = ncols;
        }
    }
}

/// plain `u64` items (no drop glue): the same histories without panics; only the column blocks are watched
fn run_plain(c: &DropCase, st: &mut St, beyond: &mut bool, had_restart: &mut bool) {
    let cols = c.columns.max(1) as usize;
    let texts_of = |text: u16| -> Vec<String> { (0..cols).map(|k| band_text(text.wrapping_add(k as u16))).collect() };
    st.labels.push("plain-items");
    if !c.nucleo {
        let v: RawVec<u64> = RawVec::with_capacity(c.capacity as u32, cols as u32);
        for op in &c.ops {
            match op {
                DOp::Push { text, .. } => {
                    let t = texts_of(*text);
                    v.push(1, |_, cs| fill(&t, cs));
                }
                DOp::Extend { n, lie, text, .. } => {
                    let t = texts_of(*text);
                    let items: Vec<u64> = (0..*n as u64).collect();
                    let reported = *n as usize + (*lie).max(0) as usize;
                    if *lie > 0 {
                        st.labels.push("lying-iterator(more)");
                    }
                    v.extend(Lying { inner: items.into_iter(), reported }, |_, cs| fill(&t, cs));
                }
                _ => {}
            }
            if v.count() > 32 {
                *beyond = true;
            }
        }
        if c.drop_on_thread {
            std::thread::spawn(move || drop(v)).join().ok();
        } else {
            drop(v);
        }
    } else {
        let mut nuc: Nucleo<u64> = Nucleo::new(Config::DEFAULT, Arc::new(|| {}), Some(c.threads.max(1) as usize), cols as u32);
        let mut handles: Vec<Injector<u64>> = vec![nuc.injector()];
        for op in &c.ops {
            match op {
                DOp::Push { text, .. } => {
                    if let Some(inj) = handles.last() {
                        let t = texts_of(*text);
                        inj.push(1, |_, cs| fill(&t, cs));
                    }
                }
                DOp::Extend { n, lie, text, .. } => {
                    if let Some(inj) = handles.last() {
                        let t = texts_of(*text);
                        let items: Vec<u64> = (0..*n as u64).collect();
                        let reported = *n as usize + (*lie).max(0) as usize;
                        if *lie > 0 {
                            st.labels.push("lying-iterator(more)");
                        }
                        inj.extend(Lying { inner: items.into_iter(), reported }, |_, cs| fill(&t, cs));
                    }
                }
                DOp::Tick => {
                    let _ = nuc.tick(10);
                }
                DOp::Settle => {
                    for _ in 0..300 {
                        if !nuc.tick(10).running {
                            break;
                        }
                    }
                }
                DOp::Reparse { sel } => {
                    let text = ["a", "b", "ab", "", "c"][*sel as usize % 5];
                    nuc.pattern.reparse(0, text, CaseMatching::Smart, Normalization::Smart, false);
                }
                DOp::Restart { clear } => {
                    nuc.restart(*clear);
                    *had_restart = true;
                }
                DOp::NewInjector => {
                    if handles.len() < 6 {
                        handles.push(nuc.injector());
                    }
                }
                DOp::CloneInjector { sel } => {
                    if !handles.is_empty() && handles.len() < 6 {
                        let cl = handles[*sel as usize % handles.len()].clone();
                        handles.push(cl);
                    }
                }
                DOp::DropInjector { sel, on_thread } => {
                    if !handles.is_empty() {
                        let h = handles.remove(*sel as usize % handles.len());
                        if *on_thread {
                            std::thread::spawn(move || drop(h)).join().ok();
                        } else {
                            drop(h);
                        }
                    }
                }
                DOp::Get { .. } | DOp::Race { .. } | DOp::ExtendHuge { .. } => {}
            }
            if handles.iter().any(|h| h.injected_items() > 32) {
                *beyond = true;
            }
        }
        let _ = nuc.tick(50);
        if c.drop_on_thread {
            std::thread::spawn(move || {
                drop(handles);
                drop(nuc);
            })
            .join()
            .ok();
        } else {
            drop(nuc);
            drop(handles);
        }
    }
}

fn fixed_templates() -> Vec<DropCase> {
        vec![
            // lying extend that skips whole buckets, then a push that lands far away
            DropCase { nucleo: false, capacity: 32, columns: 1, threads: 1, ops: vec![DOp::Extend { n: 3, lie: 6000, panic_at: 200, text: 1 }, DOp::Push { text: 2, panic: false }, DOp::Get { sel: 0 }], drop_on_thread: false, plain: false },
            DropCase { nucleo: true, capacity: 0, columns: 2, threads: 2, ops: vec![DOp::Push { text: 1, panic: false }, DOp::Extend { n: 2, lie: 5000, panic_at: 200, text: 1 }, DOp::Push { text: 2, panic: false }, DOp::Tick, DOp::Restart { clear: false }, DOp::Tick], drop_on_thread: true, plain: false },
            DropCase { nucleo: false, capacity: 0, columns: 2, threads: 1, ops: vec![DOp::Extend { n: 40, lie: 0, panic_at: 35, text: 1 }, DOp::Push { text: 2, panic: true }, DOp::Extend { n: 5, lie: -2, panic_at: 200, text: 3 }, DOp::Extend { n: 2, lie: -2, panic_at: 200, text: 3 }], drop_on_thread: true, plain: false },
            // the old stream has to go once matcher, snapshot and injectors have left it (empty and non-empty pattern)
            DropCase { nucleo: true, capacity: 0, columns: 1, threads: 1, ops: vec![DOp::Extend { n: 40, lie: 0, panic_at: 200, text: 1 }, DOp::Settle, DOp::DropInjector { sel: 0, on_thread: false }, DOp::Restart { clear: false }, DOp::Settle, DOp::NewInjector, DOp::Push { text: 1, panic: false }, DOp::Settle], drop_on_thread: false, plain: false },
            DropCase { nucleo: true, capacity: 0, columns: 2, threads: 2, ops: vec![DOp::Reparse { sel: 0 }, DOp::Extend { n: 40, lie: 0, panic_at: 200, text: 1 }, DOp::Settle, DOp::Restart { clear: true }, DOp::Settle, DOp::DropInjector { sel: 0, on_thread: true }, DOp::Settle], drop_on_thread: true, plain: false },
            // the reservation counter leaves the 32-bit range after items were stored
            DropCase { nucleo: false, capacity: 0, columns: 1, threads: 1, ops: vec![DOp::Push { text: 1, panic: false }, DOp::Push { text: 2, panic: false }, DOp::Push { text: 3, panic: false }, DOp::ExtendHuge { k: 0 }, DOp::Push { text: 4, panic: false }], drop_on_thread: false, plain: false },
            DropCase { nucleo: false, capacity: 33, columns: 2, threads: 1, ops: vec![DOp::Extend { n: 40, lie: 0, panic_at: 200, text: 1 }, DOp::ExtendHuge { k: 7 }, DOp::Extend { n: 3, lie: 0, panic_at: 200, text: 1 }], drop_on_thread: true, plain: false },
            // plain items: only the columns own memory
            DropCase { nucleo: false, capacity: 0, columns: 2, threads: 1, ops: vec![DOp::Extend { n: 60, lie: 0, panic_at: 200, text: 1 }, DOp::Push { text: 2, panic: false }], drop_on_thread: false, plain: true },
            DropCase { nucleo: true, capacity: 0, columns: 1, threads: 1, ops: vec![DOp::Extend { n: 60, lie: 3, panic_at: 200, text: 1 }, DOp::Push { text: 2, panic: false }, DOp::Settle, DOp::Restart { clear: true }, DOp::NewInjector, DOp::Push { text: 2, panic: false }, DOp::Settle], drop_on_thread: true, plain: true },
            DropCase { nucleo: true, capacity: 0, columns: 1, threads: 1, ops: vec![DOp::Push { text: 1, panic: false }, DOp::NewInjector, DOp::Tick, DOp::Restart { clear: true }, DOp::NewInjector, DOp::Push { text: 1, panic: false }, DOp::Tick, DOp::DropInjector { sel: 0, on_thread: true }, DOp::Restart { clear: false }, DOp::Restart { clear: false }, DOp::Tick], drop_on_thread: false, plain: false },
        ]
    }

impl Check for C11 {
    type Case = DropCase;
    fn id(&self) -> &'static str {
        "C11"
    }
    fn isolate(&self) -> bool {
        true
    }
    fn level(&self) -> &'static str {
        "fault_enumeration"
    }
    fn rule(&self) -> String {
        "histories over (a) the raw item vector (initial capacity 0..100, 1-3 columns) and (b) a whole Nucleo (1-3 worker threads): push / extend with honest and lying ExactSizeIterators (reporting up to 6000 more - enough to skip whole buckets - or fewer than yielded), fill callbacks that panic at a generated position (fault injection, caught around the call), get, tick, reparse, restart(true|false), injector()/clone/drop (also on other threads), final drop of everything on this or another thread. Payloads register every drop in a ledger; column texts are heap blocks in a size band watched by a counting global allocator. Oracle: nothing is dropped twice; nothing readable through a live handle has been dropped or has a damaged canary; a panicking fill leaves its item dropped exactly once; after all handles and the matcher are gone every item handed to push / yielded to extend has exactly one drop and (histories without injected panics) no column block is left alive. Non-trivial: history with a lying iterator, an injected panic or a restart, and items beyond the initial capacity's bucket.".into()
    }
    fn assumptions(&self) -> Vec<String> {
        vec!["for a panicking fill only the item is required to be dropped exactly once (the statement claims nothing about partially filled columns)".into(), "column leak detection relies on column blocks having sizes (3008-3400 bytes) nothing else in the process allocates".into()]
    }
    fn total_cases(&self, tier: Tier) -> u64 {
        match tier {
            Tier::Quick => 6_000,
            Tier::Thorough => 300_000,
        }
    }
    fn templates(&self, _tier: Tier) -> Vec<DropCase> {
        let mut v = fixed_templates();
        for capacity in [0u16, 33, 100] {
            for pre in [0u8, 20, 40] {
                v.push(DropCase { nucleo: false, capacity, columns: 1, threads: 1, ops: vec![DOp::Extend { n: pre, lie: 0, panic_at: 200, text: 3 }, DOp::Race { extra: 3 }, DOp::Push { text: 1, panic: false }, DOp::Race { extra: 0 }], drop_on_thread: false, plain: false });
            }
        }
        v
    }
    fn strategy(&self, _tier: Tier) -> BoxedStrategy<DropCase> {
        let op = prop_oneof![
            30 => (any::<u16>(), proptest::bool::weighted(0.08)).prop_map(|(text, panic)| DOp::Push { text, panic }),
            22 => (0u8..70, prop_oneof![60 => Just(0i16), 10 => -3i16..0, 15 => 1i16..40, 15 => proptest::sample::select(vec![100i16, 500, 1000, 3000, 6000])], prop_oneof![85 => Just(200u8), 15 => 0u8..70], any::<u16>()).prop_map(|(n, lie, panic_at, text)| DOp::Extend { n, lie, panic_at, text }),
            8 => any::<u16>().prop_map(|sel| DOp::Get { sel }),
            10 => Just(DOp::Tick),
            7 => any::<bool>().prop_map(|clear| DOp::Restart { clear }),
            5 => Just(DOp::NewInjector),
            5 => any::<u8>().prop_map(|sel| DOp::CloneInjector { sel }),
            8 => (any::<u8>(), any::<bool>()).prop_map(|(sel, on_thread)| DOp::DropInjector { sel, on_thread }),
            5 => any::<u8>().prop_map(|sel| DOp::Reparse { sel }),
            6 => any::<u8>().prop_map(|extra| DOp::Race { extra }),
            6 => Just(DOp::Settle),
            2 => (0u8..32).prop_map(|k| DOp::ExtendHuge { k }),
        ];
        (any::<bool>(), proptest::sample::select(vec![0u16, 1, 32, 33, 100]), 1u8..=3, 1u8..=3, proptest::collection::vec(op, 1..=18), any::<bool>(), proptest::bool::weighted(0.15)).prop_map(|(nucleo, capacity, columns, threads, ops, drop_on_thread, plain)| DropCase { nucleo, capacity, columns, threads, ops, drop_on_thread, plain }).boxed()
    }
    fn run(&self, c: &DropCase) -> Outcome {
        let mut out = Outcome::default();
        gate::reset();
        payload::reset_ledger();
        let band0 = BAND_LIVE.load(Ordering::SeqCst);
        let cols = c.columns.max(1) as usize;
        let mut st = St { created: vec![], created_in: vec![], published: vec![], fails: vec![], labels: vec![], any_panic: false };
        let mut beyond_first_bucket = false;
        let mut had_restart = false;
        if c.plain {
            run_plain(c, &mut st, &mut beyond_first_bucket, &mut had_restart);
        } else if !c.nucleo {
            let v: Arc<RawVec<Tracked>> = Arc::new(RawVec::with_capacity(c.capacity as u32, cols as u32));
            for (k, op) in c.ops.iter().enumerate() {
                let when = format!("after op #{k} {op:?}");
                match op {
                    DOp::Push { text, panic } => do_push(&|t, f| v.push(t, f), 0, cols, *text, *panic, &mut st),
                    DOp::Extend { n, lie, panic_at, text } => do_extend(&|it, f| v.extend(it, f), 0, cols, *n as usize, *lie, *panic_at as usize, *text, &mut st),
                    DOp::Race { extra } => race(&v, cols, *extra, &mut st),
                    DOp::ExtendHuge { k } => {
                        let reported = u32::MAX as usize - (*k as usize % 32);
                        if guarded(|| v.extend(Lying { inner: Vec::<Tracked>::new().into_iter(), reported }, |_, _| {})).is_err() {
                            st.any_panic = true;
                        }
                        st.labels.push("index-space-exhausted");
                    }
                    _ => {}
                }
                check_alive(&|i| v.get(i).map(|it| (it.data.id, it.data.intact(), it.matcher_columns.len())), v.count(), &mut st, &when);
                if std::env::var("C11_DEBUG").is_ok() {
                    eprintln!("{when}: band live {} published {} count {}", BAND_LIVE.load(Ordering::SeqCst) - band0, st.published.len(), v.count());
                }
                if v.count() > 32 {
                    beyond_first_bucket = true;
                }
            }
            let v = match Arc::try_unwrap(v) {
                Ok(v) => v,
                Err(_) => {
                    st.fails.push(("harness".into(), "raw vector still shared at the end".into()));
                    return out;
                }
            };
            if c.drop_on_thread {
                std::thread::spawn(move || drop(v)).join().ok();
            } else if let Err(p) = guarded(move || drop(v)) {
                st.fails.push(("drop-panic".into(), p));
            }
        } else {
            let mut nuc: Nucleo<Tracked> = Nucleo::new(Config::DEFAULT, Arc::new(|| {}), Some(c.threads.max(1) as usize), cols as u32);
            let mut stream = 0u32;
            let mut handles: Vec<(Injector<Tracked>, u32)> = vec![(nuc.injector(), 0)];
            let mut text = String::new();
            // a tick after the last restart found the worker idle: matcher, worker and snapshot are on the current stream
            let mut settled = true;
            for (k, op) in c.ops.iter().enumerate() {
                let when = format!("after op #{k} {op:?}");
                match op {
                    DOp::Push { text, panic } => {
                        if let Some((inj, s)) = handles.last() {
                            do_push(&|t, f| inj.push(t, f), *s, cols, *text, *panic, &mut st)
                        }
                    }
                    DOp::Extend { n, lie, panic_at, text } => {
                        if let Some((inj, s)) = handles.last() {
                            do_extend(&|it, f| inj.extend(it, f), *s, cols, *n as usize, *lie, *panic_at as usize, *text, &mut st)
                        }
                    }
                    DOp::Get { .. } | DOp::Race { .. } | DOp::ExtendHuge { .. } => {}
                    DOp::Tick => {
                        if !nuc.tick(10).running {
                            settled = true;
                        }
                    }
                    DOp::Settle => {
                        for _ in 0..300 {
                            if !nuc.tick(10).running {
                                settled = true;
                                break;
                            }
                        }
                    }
                    DOp::Reparse { sel } => {
                        text = ["a", "b", "ab", "", "c"][*sel as usize % 5].to_string();
                        nuc.pattern.reparse(0, &text, CaseMatching::Smart, Normalization::Smart, false);
                    }
                    DOp::Restart { clear } => {
                        nuc.restart(*clear);
                        stream += 1;
                        had_restart = true;
                        settled = false;
                    }
                    DOp::NewInjector => {
                        if handles.len() < 6 {
                            handles.push((nuc.injector(), stream));
                        }
                    }
                    DOp::CloneInjector { sel } => {
                        if !handles.is_empty() && handles.len() < 6 {
                            let (i, s) = &handles[*sel as usize % handles.len()];
                            let cl = (i.clone(), *s);
                            handles.push(cl);
                        }
                    }
                    DOp::DropInjector { sel, on_thread } => {
                        if !handles.is_empty() {
                            let h = handles.remove(*sel as usize % handles.len());
                            if *on_thread {
                                std::thread::spawn(move || drop(h)).join().ok();
                            } else {
                                drop(h);
                            }
                        }
                    }
                }
                for (inj, _) in &handles {
                    check_alive(&|i| inj.get(i).map(|it| (it.data.id, it.data.intact(), it.matcher_columns.len())), inj.injected_items(), &mut st, &when);
                    if inj.injected_items() > 2048 + 32 {
                        beyond_first_bucket = true;
                    }
                }
                let snap = nuc.snapshot();
                for m in snap.matches() {
                    if let Some(it) = snap.get_item(m.idx) {
                        if !it.data.intact() || payload::drops_of(it.data.id) != 0 {
                            st.fails.push(("dropped-while-reachable".into(), format!("{when}: matched item {} of the snapshot has been dropped", m.idx)));
                        }
                    }
                }
                // a stream without any handle left must be gone (restart + all old injectors dropped + matcher and snapshot moved on)
                if settled && stream > 0 {
                    let held: HashSet<u32> = handles.iter().map(|h| h.1).collect();
                    let gone: Vec<u64> = st.created_in.iter().filter(|(_, s)| *s < stream && !held.contains(s)).map(|p| p.0).collect();
                    if !gone.is_empty() {
                        let mut left = 0;
                        for _ in 0..100 {
                            let led = payload::ledger_snapshot();
                            left = gone.iter().filter(|id| led.get(id).copied().unwrap_or(0) == 0).count();
                            if left == 0 {
                                break;
                            }
                            std::thread::sleep(Duration::from_millis(2));
                        }
                        st.labels.push("unreachable-stream-checked");
                        if left > 0 {
                            st.fails.push(("unreachable-stream-alive".into(), format!("{when}: {left} of {} items of earlier streams are still not destroyed although the matcher was restarted, a later tick found it idle (so matcher and snapshot are on the current stream) and no injector of those streams is left", gone.len())));
                        }
                    }
                }
            }
            let _ = nuc.tick(50);
            let r = if c.drop_on_thread {
                std::thread::spawn(move || {
                    drop(handles);
                    drop(nuc);
                })
                .join()
                .map_err(|_| "panic while dropping".to_string())
            } else {
                guarded(move || {
                    drop(nuc);
                    drop(handles);
                })
            };
            if let Err(p) = r {
                st.fails.push(("drop-panic".into(), p));
            }
        }
        // ---- final ledger -------------------------------------------------------------------
        let mut missing = vec![];
        for _ in 0..200 {
            let led = payload::ledger_snapshot();
            missing = st.created.iter().filter(|id| led.get(id).copied().unwrap_or(0) == 0).copied().collect::<Vec<_>>();
            if missing.is_empty() {
                break;
            }
            std::thread::sleep(Duration::from_millis(2));
        }
        let led = payload::ledger_snapshot();
        if let Some((id, n)) = led.iter().find(|(_, &n)| n > 1) {
            st.fails.push(("double-drop".into(), format!("item id {id} was dropped {n} times")));
        }
        if !missing.is_empty() {
            st.fails.push(("leaked-item".into(), format!("{} of {} injected items were never dropped after every handle was gone (first ids {:?})", missing.len(), st.created.len(), &missing[..missing.len().min(5)])));
        }
        // the last owner may be a pool thread that is still inside the vector's destructor (the
        // payload of an entry is dropped before its columns): wait for it like for the ledger
        let mut band = BAND_LIVE.load(Ordering::SeqCst);
        for _ in 0..500 {
            if band == band0 || st.any_panic {
                break;
            }
            std::thread::sleep(Duration::from_millis(2));
            band = BAND_LIVE.load(Ordering::SeqCst);
        }
        if !st.any_panic && band != band0 {
            st.fails.push(("leaked-columns".into(), format!("{} column heap blocks are still alive after every handle was gone", band - band0)));
        }
        for l in &st.labels {
            out.label(l);
        }
        if had_restart {
            out.label("restart");
        }
        if beyond_first_bucket {
            out.label("beyond-initial-bucket");
        }
        out.nontrivial = (had_restart || !st.labels.is_empty()) && beyond_first_bucket;
        nucleo::verif::set_hook(None);
        for (s, m) in st.fails {
            out.fail(s, format!("{m}; case {c:?}"));
        }
        out
    }
}
