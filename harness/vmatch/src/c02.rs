//! C02 — reported match indices are a valid witness of the match.

use crate::mcase::*;
use proptest::prelude::*;
use vcommon::driver::{Check, Outcome, Tier};
use vcommon::oracle::*;

pub struct C02;

/// whitespace in the two readings the crate itself uses (U+000B differs between them)
pub fn ws_readings() -> [fn(char) -> bool; 2] {
    [|c: char| c.is_whitespace(), |c: char| c.is_whitespace() && c != '\u{b}']
}
pub fn lead_trail(hay: &[char], needle: &[char], ws: fn(char) -> bool) -> (usize, usize) {
    let lead = if needle.first().map_or(true, |&c| c.is_whitespace()) { 0 } else { hay.iter().take_while(|&&c| ws(c)).count() };
    let trail = if needle.last().map_or(true, |&c| c.is_whitespace()) { 0 } else { hay.iter().rev().take_while(|&&c| ws(c)).count() };
    (lead, trail)
}

impl Check for C02 {
    type Case = MCase;
    fn id(&self) -> &'static str {
        "C02"
    }
    fn rule(&self) -> String {
        "C01's domain (palettes over weighted pools, normalized needles derived constructively, 1% limit-size classes) x all six algorithms' indices variants x every applicable representation pair x a generated prior content of the indices vector (0-8 arbitrary u32, capacity exactly full / spare / default). Oracle both directions: on Some the vector is prior ++ exactly |needle| strictly increasing in-range indices whose haystack chars normalize to the needle chars (contiguous + anchored for substring/prefix/postfix/exact); on None the vector equals prior. Non-trivial: (successful match with needle length >= 2, or failed match) with non-empty prior content.".into()
    }
    fn assumptions(&self) -> Vec<String> {
        vec!["needle is normalized (fixed points of the per-character map)".into(), "U+000B is classified differently by the two whitespace predicates the crate uses on its two representations; anchoring accepts either reading for haystacks containing U+000B".into()]
    }
    fn total_cases(&self, tier: Tier) -> u64 {
        match tier {
            Tier::Quick => 150_000,
            Tier::Thorough => 8_000_000,
        }
    }
    fn strategy(&self, _tier: Tier) -> BoxedStrategy<MCase> {
        mcase_strategy(8, 0)
    }
    fn run(&self, case: &MCase) -> Outcome {
        let mut out = Outcome::default();
        let cfg = case.cfg;
        let hay = case.hay.expand();
        let needle = case.needle.expand();
        if !needle.iter().all(|&c| is_fixed(c, cfg)) {
            out.label("skipped-needle-not-normalized");
            return out;
        }
        let nh = norm_vec(&hay, cfg);
        let hs = Strs::new(hay.clone());
        let ns = Strs::new(needle.clone());
        let prior = &case.prior;
        let res = run_calls(&hs, &ns, cfg, &ALL_ALGOS, prior, case.cap_mode);
        let mut any_some = false;
        let mut any_none = false;
        for r in &res {
            out.sub_evals += 1;
            let pair = format!("{}x{}", r.hr.name(), r.nr.name());
            let ctx = || format!("{}_indices on ({pair}); haystack={} needle={} cfg={cfg:?} prior={prior:?}", r.algo.name(), show(&hay), show(&needle));
            let (score, v) = match &r.with_idx {
                Err(p) => {
                    out.fail(format!("panic:{}:{pair}", r.algo.name()), format!("panicked: {p}; {}", ctx()));
                    continue;
                }
                Ok(x) => x,
            };
            if v.len() < prior.len() || &v[..prior.len()] != prior.as_slice() {
                out.fail(format!("prior-content-modified:{}", r.algo.name()), format!("earlier content of the vector was changed: now {:?}; {}", &v[..v.len().min(24)], ctx()));
                continue;
            }
            let new = &v[prior.len()..];
            match score {
                None => {
                    any_none = true;
                    if !new.is_empty() {
                        out.fail(format!("failed-match-appended:{}", r.algo.name()), format!("returned None but appended {:?}; {}", &new[..new.len().min(24)], ctx()));
                    }
                }
                Some(_) => {
                    any_some = true;
                    if new.len() != needle.len() {
                        out.fail(format!("index-count:{}", r.algo.name()), format!("appended {} indices for a needle of {} chars: {:?}; {}", new.len(), needle.len(), &new[..new.len().min(24)], ctx()));
                        continue;
                    }
                    let mut ok = true;
                    for k in 0..new.len() {
                        let i = new[k] as usize;
                        if i >= hay.len() {
                            out.fail(format!("index-out-of-range:{}", r.algo.name()), format!("index {i} >= haystack length {}; {}", hay.len(), ctx()));
                            ok = false;
                            break;
                        }
                        if k > 0 && new[k] <= new[k - 1] {
                            out.fail(format!("not-increasing:{}", r.algo.name()), format!("indices {:?} not strictly increasing at {k}; {}", &new[..new.len().min(24)], ctx()));
                            ok = false;
                            break;
                        }
                        if nh[i] != needle[k] {
                            out.fail(format!("wrong-char:{}", r.algo.name()), format!("index {i} holds {:?} which normalizes to {:?}, needle char {k} is {:?}; indices {:?}; {}", hay[i], nh[i], needle[k], &new[..new.len().min(24)], ctx()));
                            ok = false;
                            break;
                        }
                    }
                    if !ok || new.is_empty() {
                        continue;
                    }
                    if r.algo != Algo::Fuzzy && r.algo != Algo::Greedy {
                        if (0..new.len()).any(|k| new[k] != new[0] + k as u32) {
                            out.fail(format!("not-contiguous:{}", r.algo.name()), format!("indices {:?} not contiguous; {}", &new[..new.len().min(24)], ctx()));
                            continue;
                        }
                        let anchors: Vec<(usize, usize)> = ws_readings().iter().map(|&ws| lead_trail(&hay, &needle, ws)).collect();
                        let first = new[0] as usize;
                        let last = *new.last().unwrap() as usize;
                        let start_ok = anchors.iter().any(|&(l, _)| first == l);
                        let end_ok = anchors.iter().any(|&(_, t)| last + 1 + t == hay.len());
                        let bad = match r.algo {
                            Algo::Prefix => !start_ok,
                            Algo::Postfix => !end_ok,
                            Algo::Exact => !(start_ok && end_ok),
                            _ => false,
                        };
                        if bad {
                            out.fail(format!("not-anchored:{}", r.algo.name()), format!("indices {:?} not anchored (leading/trailing whitespace {:?}); {}", &new[..new.len().min(24)], anchors[0], ctx()));
                        }
                    }
                }
            }
        }
        if any_some {
            out.label("some-match");
        }
        if any_none {
            out.label("some-failed-match");
        }
        if !prior.is_empty() {
            out.label("prior-nonempty");
        }
        if case.hay.tile_to > 0 {
            out.label("limit-class");
        }
        out.label(match case.cap_mode {
            0 => "vector-exactly-full",
            1 => "vector-spare-capacity",
            _ => "vector-default",
        });
        out.nontrivial = !prior.is_empty() && ((any_some && needle.len() >= 2) || any_none);
        out
    }
}
