//! C05 — substring, prefix, postfix and exact matching decide the documented relations.

use crate::c02::{lead_trail, ws_readings};
use crate::mcase::*;
use proptest::prelude::*;
use vcommon::driver::{Check, Outcome, Tier};
use vcommon::gen::{self, map_idx, text_from};
use vcommon::oracle::*;

pub struct C05;

#[derive(Clone, Debug)]
enum NMode {
    /// substring of the whole normalized haystack
    Sub(u16, u8),
    /// substring ending at the last character of the core / of the haystack
    CoreSuffix(u8),
    FullSuffix(u8),
    CorePrefix(u8),
    FullPrefix(u8),
    CoreWhole,
    FullWhole,
    /// any of the above with one char replaced
    Mutated(Box<NMode>, u16, u16),
    Independent(Vec<u16>),
    /// the needle keeps part of the surrounding whitespace (needle starts / ends with whitespace)
    WithLeadWs(u8),
    WithTrailWs(u8),
}

fn nmode() -> BoxedStrategy<NMode> {
    let leaf = prop_oneof![
        30 => (any::<u16>(), 1u8..=6).prop_map(|(s, l)| NMode::Sub(s, l)),
        10 => (1u8..=6).prop_map(NMode::CoreSuffix),
        6 => (1u8..=6).prop_map(NMode::FullSuffix),
        10 => (1u8..=6).prop_map(NMode::CorePrefix),
        6 => (1u8..=6).prop_map(NMode::FullPrefix),
        10 => Just(NMode::CoreWhole),
        4 => Just(NMode::FullWhole),
        6 => proptest::collection::vec(any::<u16>(), 1..=4).prop_map(NMode::Independent),
        5 => (1u8..=4).prop_map(NMode::WithLeadWs),
        5 => (1u8..=4).prop_map(NMode::WithTrailWs),
    ];
    prop_oneof![
        75 => leaf.clone(),
        25 => (leaf, any::<u16>(), any::<u16>()).prop_map(|(m, a, b)| NMode::Mutated(Box::new(m), a, b)),
    ]
    .boxed()
}

fn derive(nh: &[char], lead: usize, trail: usize, pal: &[char], cfg: Cfg, mode: &NMode) -> Vec<char> {
    let n = nh.len();
    let core = &nh[lead..n - trail];
    let v: Vec<char> = match mode {
        NMode::Sub(s, l) => {
            if n == 0 {
                vec![]
            } else {
                let st = map_idx(*s, n);
                nh[st..(st + *l as usize).min(n)].to_vec()
            }
        }
        NMode::CoreSuffix(l) => core[core.len() - (*l as usize).min(core.len())..].to_vec(),
        NMode::FullSuffix(l) => nh[n - (*l as usize).min(n)..].to_vec(),
        NMode::CorePrefix(l) => core[..(*l as usize).min(core.len())].to_vec(),
        NMode::FullPrefix(l) => nh[..(*l as usize).min(n)].to_vec(),
        NMode::CoreWhole => core.to_vec(),
        NMode::FullWhole => nh.to_vec(),
        NMode::Mutated(inner, at, with) => {
            let mut v = derive(nh, lead, trail, pal, cfg, inner);
            if !v.is_empty() {
                let k = map_idx(*at, v.len());
                v[k] = pal[map_idx(*with, pal.len())];
            }
            v
        }
        NMode::Independent(s) => s.iter().map(|&x| pal[map_idx(x, pal.len())]).collect(),
        NMode::WithLeadWs(l) => {
            let st = lead.saturating_sub(1);
            nh[st..(st + 1 + *l as usize).min(n)].to_vec()
        }
        NMode::WithTrailWs(l) => {
            let en = (n - trail + 1).min(n);
            nh[en.saturating_sub(1 + *l as usize)..en].to_vec()
        }
    };
    v.into_iter().map(|c| norm_fix(c, cfg)).collect()
}

/// palettes biased towards non-letters followed by letters and several bonus classes
fn c05_palette() -> BoxedStrategy<Vec<char>> {
    prop_oneof![
        40 => (proptest::collection::vec(proptest::sample::select("abAB".chars().collect::<Vec<_>>()), 1..=3), proptest::collection::vec(proptest::sample::select("-_./:, 12".chars().collect::<Vec<_>>()), 1..=3)).prop_map(|(mut a, b)| { a.extend(b); a }),
        22 => gen::palette(gen::PaletteKind::Ascii),
        22 => gen::palette(gen::PaletteKind::Mixed),
        8 => gen::palette(gen::PaletteKind::FoldingLower),
        8 => gen::palette(gen::PaletteKind::AsciiTwins),
    ]
    .boxed()
}

fn ws_vec() -> BoxedStrategy<Vec<char>> {
    let mut w = gen::WHITES.to_vec();
    w.push('\u{b}');
    prop_oneof![
        50 => Just(vec![]),
        35 => proptest::collection::vec(proptest::sample::select(vec![' ', '\t', '\n']), 1..=3),
        15 => proptest::collection::vec(proptest::sample::select(w), 1..=3),
    ]
    .boxed()
}

impl Check for C05 {
    type Case = MCase;
    fn id(&self) -> &'static str {
        "C05"
    }
    fn rule(&self) -> String {
        "haystack = 0-3 leading whitespace chars ++ core of 0-14 (a fifth: 15-40) chars drawn from a small palette (letters + non-letters + digits, ASCII and non-ASCII, ASCII characters with their bit-5 twins) ++ 0-3 trailing whitespace chars; needle = substring of the normalized haystack at a generated position / ending at the last char / prefix / suffix / whole core / whole haystack / including surrounding whitespace / one-char mutation / independent; substring_match, prefix_match, postfix_match, exact_match (score-only and indices variants, every applicable representation pair). Oracle: naive all-occurrences reference (None iff no occurrence; start = leftmost occurrence among those whose first char earns the maximal reference bonus) and trimmed-region equality. Non-trivial: >= 2 occurrences with different bonuses, or an occurrence ending at the last char, or a needle whose first letter is at position >= 2, or a haystack with surrounding whitespace. Distinct by case hash.".into()
    }
    fn assumptions(&self) -> Vec<String> {
        vec!["needle is normalized".into(), "U+000B: both whitespace readings used by the crate are accepted when they disagree".into()]
    }
    fn total_cases(&self, tier: Tier) -> u64 {
        match tier {
            Tier::Quick => 200_000,
            Tier::Thorough => 12_000_000,
        }
    }
    fn strategy(&self, _tier: Tier) -> BoxedStrategy<MCase> {
        (c05_palette(), prop_oneof![4 => proptest::collection::vec(any::<u16>(), 0..=14), 1 => proptest::collection::vec(any::<u16>(), 15..=40)], ws_vec(), ws_vec(), gen::any_cfg(), nmode())
            .prop_map(|(pal, sels, lead, trail, cfg, mode)| {
                let core = text_from(&pal, &sels);
                let mut hay = lead.clone();
                hay.extend(core);
                hay.extend(trail.iter());
                let nh = norm_vec(&hay, cfg);
                // measured on the haystack itself: the core may begin / end with whitespace too
                let l = lead.len().min(hay.len());
                let t = trail.len().min(hay.len() - l);
                let needle = derive(&nh, l, t, &pal, cfg, &mode);
                MCase { hay: Text::plain(hay), needle: Text::plain(needle), cfg, prior: vec![], cap_mode: 2 }
            })
            .boxed()
    }
    fn run(&self, case: &MCase) -> Outcome {
        let mut out = Outcome::default();
        let cfg = case.cfg;
        let hay = case.hay.expand();
        let needle = case.needle.expand();
        if !needle.iter().all(|&c| is_fixed(c, cfg)) {
            out.label("skipped-needle-not-normalized");
            return out;
        }
        let nh = norm_vec(&hay, cfg);
        let profile = cfg.profile();
        let b = bonus_vec(&hay, &profile);
        let m = needle.len();
        let n = hay.len();
        let occ = occurrences(&needle, &nh);
        // expected substring start
        let exp_sub: Option<usize> = if m == 0 {
            None
        } else {
            occ.iter().map(|&p| b[p]).max().map(|best| *occ.iter().find(|&&p| b[p] == best).unwrap())
        };
        // expected decisions for the anchored kinds under each whitespace reading
        let mut exp_prefix = vec![];
        let mut exp_postfix = vec![];
        let mut exp_exact = vec![];
        for ws in ws_readings() {
            let (l, t) = lead_trail(&hay, &needle, ws);
            exp_prefix.push(l + m <= n && nh[l..l + m] == needle[..]);
            exp_postfix.push(t + m <= n && nh[n - t - m..n - t] == needle[..]);
            exp_exact.push(l + t <= n && n - l - t == m && nh[l..n - t] == needle[..]);
        }
        // labels / non-triviality
        let distinct_bonus = occ.iter().map(|&p| b[p]).collect::<std::collections::HashSet<_>>().len() >= 2;
        let ends_last = occ.iter().any(|&p| p + m == n);
        let first_letter_late = needle.iter().position(|c| c.is_alphabetic()).map_or(false, |p| p >= 2);
        let surrounded = hay.first().map_or(false, |c| c.is_whitespace()) || hay.last().map_or(false, |c| c.is_whitespace());
        if distinct_bonus {
            out.label("occurrences-with-different-bonus");
        }
        if occ.len() >= 2 {
            out.label("several-occurrences");
        }
        if ends_last && m > 0 {
            out.label("occurrence-ends-at-last-char");
        }
        if first_letter_late {
            out.label("needle-first-letter-at>=2");
        }
        if surrounded {
            out.label("haystack-surrounding-whitespace");
        }
        if needle.first().map_or(false, |c| c.is_whitespace()) || needle.last().map_or(false, |c| c.is_whitespace()) {
            out.label("needle-starts-or-ends-with-whitespace");
        }
        if hay.iter().any(|c| !c.is_ascii()) {
            out.label("non-ascii-haystack");
        }
        if occ.is_empty() && m > 0 {
            out.label("no-occurrence");
        }
        if hay.contains(&'\u{b}') {
            out.label("contains-U+000B");
        }
        out.nontrivial = m > 0 && (distinct_bonus || ends_last || first_letter_late || surrounded);

        let hs = Strs::new(hay.clone());
        let ns = Strs::new(needle.clone());
        let res = run_calls(&hs, &ns, cfg, &[Algo::Substring, Algo::Prefix, Algo::Postfix, Algo::Exact], &[], 2);
        for r in &res {
            out.sub_evals += 1;
            let pair = format!("{}x{}", r.hr.name(), r.nr.name());
            let ctx = || format!("{} on ({pair}); haystack={} needle={} cfg={cfg:?}", r.algo.name(), show(&hay), show(&needle));
            let so = match &r.score_only {
                Err(p) => {
                    out.fail(format!("panic:{}:{pair}", r.algo.name()), format!("panicked: {p}; {}", ctx()));
                    continue;
                }
                Ok(x) => x.is_some(),
            };
            let (wi, idx) = match &r.with_idx {
                Err(p) => {
                    out.fail(format!("panic:{}:{pair}", r.algo.name()), format!("indices variant panicked: {p}; {}", ctx()));
                    continue;
                }
                Ok(x) => (x.0.is_some(), &x.1),
            };
            if so != wi {
                out.fail(format!("variants-disagree:{}", r.algo.name()), format!("score-only says {so}, indices variant says {wi}; {}", ctx()));
                continue;
            }
            if m == 0 {
                if !so {
                    out.fail(format!("empty-needle:{}", r.algo.name()), format!("empty needle did not match; {}", ctx()));
                }
                continue;
            }
            match r.algo {
                Algo::Substring => {
                    if so != exp_sub.is_some() {
                        out.fail(format!("substring-decision:expected={}", exp_sub.is_some()), format!("returned {} but the needle occurs at {:?} in the normalized haystack; {}", if so { "Some" } else { "None" }, occ, ctx()));
                    } else if let (true, Some(e)) = (so, exp_sub) {
                        if idx.first().map(|&i| i as usize) != Some(e) {
                            out.fail("substring-position", format!("reported start {:?}, expected {e} (occurrences {:?} with first-char bonuses {:?}: leftmost among the best); {}", idx.first(), occ, occ.iter().map(|&p| b[p]).collect::<Vec<_>>(), ctx()));
                        }
                    }
                }
                Algo::Prefix | Algo::Postfix | Algo::Exact => {
                    let exp = match r.algo {
                        Algo::Prefix => &exp_prefix,
                        Algo::Postfix => &exp_postfix,
                        _ => &exp_exact,
                    };
                    if !exp.contains(&so) {
                        out.fail(format!("{}-decision:expected={}", r.algo.name(), exp[0]), format!("returned {} but equality with the trimmed region is {}; {}", if so { "Some" } else { "None" }, exp[0], ctx()));
                    }
                }
                _ => {}
            }
        }
        out
    }
}
