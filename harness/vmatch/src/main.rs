use vmatch::*;

fn main() {
    let args: Vec<String> = std::env::args().skip(1).collect();
    let Some(id) = args.first().cloned() else {
        eprintln!("usage: vmatch <ID> [--tier quick|thorough] [--replay FILE]");
        std::process::exit(2);
    };
    let rest = &args[1..];
    let code = match id.as_str() {
        "C01" => vcommon::driver::main_for(&c01::C01, rest),
        "C02" => vcommon::driver::main_for(&c02::C02, rest),
        "C03" => vcommon::driver::main_for(&c03::C03, rest),
        "C04" => vcommon::driver::main_for(&c04::C04, rest),
        "C05" => vcommon::driver::main_for(&c05::C05, rest),
        "C10" => vcommon::driver::main_for(&c10::C10, rest),
        "C14" => vcommon::driver::main_for(&c14::C14, rest),
        "C15" => vcommon::driver::main_for(&c15::C15, rest),
        "C16" => vcommon::driver::main_for(&c16::C16, rest),
        "C17" => vcommon::driver::main_for(&c17::C17, rest),
        _ => {
            eprintln!("unknown property {id}");
            2
        }
    };
    std::process::exit(code);
}
