//! C14 — pattern text is parsed by one grammar regardless of the characters involved.

use nucleo_matcher::pattern::{Atom, AtomKind, CaseMatching, Normalization, Pattern};
use proptest::prelude::*;
use serde::{Deserialize, Serialize};
use unicode_segmentation::UnicodeSegmentation;
use vcommon::driver::{guarded, Check, Outcome, Tier};
use vcommon::oracle::ucd_fold;

pub struct C14;

#[derive(Clone, Debug, Serialize, Deserialize, Hash)]
pub struct PCase {
    /// pattern texts; the last one is the one compared, earlier ones are reparse history
    pub texts: Vec<String>,
    /// literal text for the escape round-trip
    pub literal: String,
    /// 0 Respect 1 Ignore 2 Smart
    pub case: u8,
    /// 0 Never 1 Smart
    pub norm: u8,
    /// kind for Pattern::new / Atom::new
    pub kind: u8,
    /// (case, norm) used by the earlier steps of the reparse history (missing: the case's own)
    #[serde(default)]
    pub hist_modes: Vec<(u8, u8)>,
    /// before the final reparse the same text is parsed once with these other settings
    #[serde(default)]
    pub repeat: Option<(u8, u8)>,
}

#[derive(Clone, Debug, PartialEq, Eq)]
pub struct RefAtom {
    pub needle: Vec<char>,
    pub kind: AtomKind,
    pub negative: bool,
    pub ignore_case: bool,
    pub normalize: bool,
}

pub fn case_of(c: u8) -> CaseMatching {
    match c % 3 {
        0 => CaseMatching::Respect,
        1 => CaseMatching::Ignore,
        _ => CaseMatching::Smart,
    }
}
pub fn norm_of(n: u8) -> Normalization {
    if n % 2 == 0 {
        Normalization::Never
    } else {
        Normalization::Smart
    }
}
pub fn kind_of(k: u8) -> AtomKind {
    match k % 5 {
        0 => AtomKind::Fuzzy,
        1 => AtomKind::Substring,
        2 => AtomKind::Prefix,
        3 => AtomKind::Postfix,
        _ => AtomKind::Exact,
    }
}

/// split at whitespace that is not preceded by a backslash
pub fn ref_split(p: &str) -> Vec<String> {
    let mut out = vec![String::new()];
    let mut prev_backslash = false;
    for c in p.chars() {
        if c.is_whitespace() && !prev_backslash {
            out.push(String::new());
        } else {
            out.last_mut().unwrap().push(c);
        }
        prev_backslash = c == '\\';
    }
    out
}

/// needle construction: grapheme projection, `\ ` -> ' ', case folding, smart flags
pub fn ref_build(text: &str, case: CaseMatching, norm: Normalization, unescape: bool, append_dollar: bool) -> (Vec<char>, bool, bool) {
    let projected: Vec<char> = if text.is_ascii() { text.chars().collect() } else { text.graphemes(true).map(|g| if g == "\r\n" { '\n' } else { g.chars().next().unwrap() }).collect() };
    let mut chars = vec![];
    let mut i = 0;
    while i < projected.len() {
        if unescape && projected[i] == '\\' && i + 1 < projected.len() && projected[i + 1] == ' ' {
            chars.push(' ');
            i += 2;
        } else {
            chars.push(projected[i]);
            i += 1;
        }
    }
    let ignore_case = match case {
        CaseMatching::Respect => false,
        CaseMatching::Ignore => {
            for c in chars.iter_mut() {
                *c = ucd_fold(*c);
            }
            true
        }
        CaseMatching::Smart => !chars.iter().any(|&c| ucd_fold(c) != c),
        _ => false,
    };
    let normalize = match norm {
        Normalization::Never => false,
        Normalization::Smart => chars.iter().all(|&c| nucleo_matcher::chars::normalize(c) == c),
        _ => false,
    };
    if append_dollar {
        chars.push('$');
    }
    (chars, ignore_case, normalize)
}

pub fn ref_parse_atom(raw: &str, case: CaseMatching, norm: Normalization) -> RefAtom {
    let mut cs: Vec<char> = raw.chars().collect();
    let mut negative = false;
    if cs.first() == Some(&'!') {
        negative = true;
        cs.remove(0);
    } else if cs.len() >= 2 && cs[0] == '\\' && cs[1] == '!' {
        cs.remove(0);
    }
    let mut kind = AtomKind::Fuzzy;
    if cs.first() == Some(&'^') {
        kind = AtomKind::Prefix;
        cs.remove(0);
    } else if cs.first() == Some(&'\'') {
        kind = AtomKind::Substring;
        cs.remove(0);
    } else if cs.len() >= 2 && cs[0] == '\\' && (cs[1] == '^' || cs[1] == '\'') {
        cs.remove(0);
    }
    let mut append_dollar = false;
    let n = cs.len();
    if n >= 2 && cs[n - 2] == '\\' && cs[n - 1] == '$' {
        append_dollar = true;
        cs.truncate(n - 2);
    } else if n >= 1 && cs[n - 1] == '$' {
        // pinned corner: "'foo$" (substring marker plus $) is read as Exact, like "^foo$"
        kind = if kind == AtomKind::Fuzzy { AtomKind::Postfix } else { AtomKind::Exact };
        cs.truncate(n - 1);
    }
    if negative && kind == AtomKind::Fuzzy {
        kind = AtomKind::Substring;
    }
    let text: String = cs.into_iter().collect();
    let (needle, ignore_case, normalize) = ref_build(&text, case, norm, true, append_dollar);
    RefAtom { needle, kind, negative, ignore_case, normalize }
}

pub fn ref_parse(p: &str, case: CaseMatching, norm: Normalization) -> Vec<RefAtom> {
    ref_split(p).iter().map(|a| ref_parse_atom(a, case, norm)).filter(|a| !a.needle.is_empty()).collect()
}

pub fn observe(a: &Atom) -> RefAtom {
    let dbg = format!("{a:?}");
    let tail = &dbg[dbg.rfind("ignore_case: ").map_or(0, |i| i)..];
    let ignore_case = tail.starts_with("ignore_case: true");
    let normalize = tail.contains("normalize: true");
    RefAtom { needle: a.needle_text().chars().collect(), kind: a.kind, negative: a.negative, ignore_case, normalize }
}

/// the escaped form of a literal text (domain: only U+0020 as whitespace, does not start with a
/// backslash followed by a marker)
pub fn escape(t: &str) -> String {
    let cs: Vec<char> = t.chars().collect();
    let mut out = String::new();
    for (i, &c) in cs.iter().enumerate() {
        if c == ' ' {
            out.push_str("\\ ");
        } else if i == 0 && (c == '!' || c == '^' || c == '\'') {
            out.push('\\');
            out.push(c);
        } else if i + 1 == cs.len() && c == '$' {
            out.push_str("\\$");
        } else {
            out.push(c);
        }
    }
    // a one-char text that is both first and last: "$" handled by the first branch order
    if cs.len() == 1 && cs[0] == '$' {
        return "\\$".into();
    }
    out
}

fn pool_char() -> BoxedStrategy<char> {
    prop_oneof![
        22 => proptest::sample::select("abcxyz".chars().collect::<Vec<_>>()),
        8 => proptest::sample::select("ABZ".chars().collect::<Vec<_>>()),
        3 => proptest::sample::select("019".chars().collect::<Vec<_>>()),
        14 => proptest::sample::select("!^'$".chars().collect::<Vec<_>>()),
        12 => Just('\\'),
        12 => Just(' '),
        4 => proptest::sample::select(vec!['\t', '\n', '\r', '\u{a0}', '\u{3000}', '\u{2003}', '\u{b}']),
        14 => proptest::sample::select("éÉäσΣςßǅ漢жЖñÆµſ".chars().collect::<Vec<_>>()),
        2 => proptest::sample::select("-_./".chars().collect::<Vec<_>>()),
        1 => Just('\u{301}'),
    ]
    .boxed()
}
fn literal_char() -> BoxedStrategy<char> {
    prop_oneof![
        25 => proptest::sample::select("abcxyz".chars().collect::<Vec<_>>()),
        8 => proptest::sample::select("ABZ".chars().collect::<Vec<_>>()),
        14 => proptest::sample::select("!^'$".chars().collect::<Vec<_>>()),
        10 => Just('\\'),
        14 => Just(' '),
        14 => proptest::sample::select("éÉäσΣςßǅ漢жЖñÆµſ".chars().collect::<Vec<_>>()),
        3 => proptest::sample::select("-_./0".chars().collect::<Vec<_>>()),
    ]
    .boxed()
}

impl Check for C14 {
    type Case = PCase;
    fn id(&self) -> &'static str {
        "C14"
    }
    fn rule(&self) -> String {
        "pattern strings of 0-14 chars from a pool in which markers (! ^ ' $), backslash and whitespace of every kind are frequent, mixed with ASCII letters/digits and non-ASCII letters (cased, normalizable, CJK, lower-case-but-folding), 1-3 texts per case (reparse history on one Pattern object; in a third of the cases the earlier steps use other CaseMatching/Normalization settings, and in a third the final text is first parsed with other settings); a literal text for the escape round-trip; all CaseMatching x Normalization. Oracles: own reference parser of the stated grammar vs Pattern::parse / Atom::parse / Pattern::new / Atom::new (needle text, kind, polarity, ignore-case and normalize flags); parse(escape(t)) is one positive fuzzy atom with needle project(t); reparse sequence == fresh parse; clone / clone_from onto a pattern parsed with other settings == source. Non-trivial: a text containing a backslash or a marker adjacent to a non-ASCII character (or, for the round trip, a literal with a space/marker/backslash and a non-ASCII char). Distinct by case hash.".into()
    }
    fn assumptions(&self) -> Vec<String> {
        vec![
            "'upper-case character' is read as the crate documents is_upper_case: a character that simple case folding changes".into(),
            "markers are recognised on the raw atom, grapheme projection happens before unescaping (order not fixed by the statement; follows the code)".into(),
            "\"'foo$\" is read as Exact (pinned corner)".into(),
            "the escape round-trip domain excludes whitespace other than U+0020 and literals starting with a backslash followed by a marker (no escaped form exists)".into(),
        ]
    }
    fn total_cases(&self, tier: Tier) -> u64 {
        match tier {
            Tier::Quick => 300_000,
            Tier::Thorough => 20_000_000,
        }
    }
    fn strategy(&self, _tier: Tier) -> BoxedStrategy<PCase> {
        let text = proptest::collection::vec(pool_char(), 0..=14).prop_map(|v| v.into_iter().collect::<String>());
        let literal = proptest::collection::vec(literal_char(), 0..=8).prop_map(|mut v| {
            // construct inside the escapable domain: drop a leading backslash that precedes a marker
            while v.len() >= 2 && v[0] == '\\' && matches!(v[1], '!' | '^' | '\'') {
                v.remove(0);
            }
            v.into_iter().collect::<String>()
        });
        let modes = prop_oneof![2 => Just(vec![]), 1 => proptest::collection::vec((0u8..3, 0u8..2), 2)];
        let repeat = prop_oneof![2 => Just(None), 1 => (0u8..3, 0u8..2).prop_map(Some)];
        (proptest::collection::vec(text, 1..=3), literal, 0u8..3, 0u8..2, 0u8..5, modes, repeat).prop_map(|(texts, literal, case, norm, kind, hist_modes, repeat)| PCase { texts, literal, case, norm, kind, hist_modes, repeat }).boxed()
    }
    fn run(&self, case: &PCase) -> Outcome {
        let mut out = Outcome::default();
        let cm = case_of(case.case);
        let nm = norm_of(case.norm);
        let last = case.texts.last().cloned().unwrap_or_default();
        let cs: Vec<char> = last.chars().collect();
        let adjacent = cs.windows(2).any(|w| (matches!(w[0], '\\' | '!' | '^' | '\'' | '$') && !w[1].is_ascii()) || (matches!(w[1], '\\' | '!' | '^' | '\'' | '$') && !w[0].is_ascii()));
        let lit_cs: Vec<char> = case.literal.chars().collect();
        let lit_interesting = lit_cs.iter().any(|c| !c.is_ascii()) && lit_cs.iter().any(|c| matches!(c, ' ' | '\\' | '!' | '^' | '\'' | '$'));
        out.nontrivial = adjacent || lit_interesting;
        if adjacent {
            out.label("marker-or-backslash-adjacent-to-non-ascii");
        }
        if lit_interesting {
            out.label("roundtrip-literal-non-ascii-with-special");
        }
        if last.contains("\\ ") {
            out.label("escaped-space");
        }
        if !last.is_ascii() {
            out.label("non-ascii-pattern");
        }
        if case.texts.len() > 1 {
            out.label("reparse-history");
        }
        if case.repeat.is_some() {
            out.label("same-text-reparsed-with-other-settings");
        }
        let show = |v: &[RefAtom]| format!("{v:?}");
        let r = guarded(|| {
            let mut fails: Vec<(String, String)> = vec![];
            // (a) reference parser
            let exp = ref_parse(&last, cm, nm);
            let got: Vec<RefAtom> = Pattern::parse(&last, cm, nm).atoms.iter().map(observe).collect();
            if got != exp {
                let class = if !last.is_ascii() && last.contains('\\') { "parse:non-ascii-backslash" } else { "parse" };
                fails.push((class.into(), format!("Pattern::parse({last:?}, {cm:?}, {nm:?}) = {} but the grammar gives {}", show(&got), show(&exp))));
            }
            // Atom::parse on each raw atom
            for raw in ref_split(&last) {
                let e = ref_parse_atom(&raw, cm, nm);
                let g = observe(&Atom::parse(&raw, cm, nm));
                if g != e {
                    let class = if !raw.is_ascii() && raw.contains('\\') { "parse:non-ascii-backslash" } else { "atom-parse" };
                    fails.push((class.into(), format!("Atom::parse({raw:?}) = {g:?}, grammar gives {e:?}")));
                }
            }
            // Pattern::new: same splitting, no markers
            let kind = kind_of(case.kind);
            let exp_new: Vec<RefAtom> = ref_split(&last)
                .iter()
                .map(|a| {
                    let (needle, ignore_case, normalize) = ref_build(a, cm, nm, true, false);
                    RefAtom { needle, kind, negative: false, ignore_case, normalize }
                })
                .filter(|a| !a.needle.is_empty())
                .collect();
            let got_new: Vec<RefAtom> = Pattern::new(&last, cm, nm, kind).atoms.iter().map(observe).collect();
            if got_new != exp_new {
                let class = if !last.is_ascii() && last.contains('\\') { "parse:non-ascii-backslash" } else { "pattern-new" };
                fails.push((class.into(), format!("Pattern::new({last:?}, {kind:?}) = {} expected {}", show(&got_new), show(&exp_new))));
            }
            // Atom::new without unescaping keeps the text literally
            let (needle, ignore_case, normalize) = ref_build(&last, cm, nm, false, false);
            let e = RefAtom { needle, kind, negative: false, ignore_case, normalize };
            let g = observe(&Atom::new(&last, cm, nm, kind, false));
            if g != e {
                fails.push(("atom-new-literal".into(), format!("Atom::new({last:?}, escape_whitespace=false) = {g:?}, expected {e:?}")));
            }
            // (c) reparse history
            // every step but the last may use other settings; the last step is (last text, cm, nm)
            let mut steps: Vec<(&str, u8, u8)> = vec![];
            for (i, t) in case.texts[..case.texts.len() - 1].iter().enumerate() {
                let (c, n) = case.hist_modes.get(i).copied().unwrap_or((case.case, case.norm));
                steps.push((t, c, n));
            }
            if let Some((c, n)) = case.repeat {
                steps.push((&last, c, n));
            }
            steps.push((&last, case.case, case.norm));
            let mut p = Pattern::parse(steps[0].0, case_of(steps[0].1), norm_of(steps[0].2));
            for (t, c, n) in &steps[1..] {
                p.reparse(t, case_of(*c), norm_of(*n));
            }
            if steps.len() == 1 {
                p.reparse(&last, cm, nm);
            }
            let fresh = Pattern::parse(&last, cm, nm);
            // clone_from onto a pattern parsed from the same text with other settings
            let mut q = Pattern::parse(&last, case_of((case.case + 1) % 3), norm_of(1 - case.norm % 2));
            q.clone_from(&fresh);
            if q.atoms != fresh.atoms || fresh.clone().atoms != fresh.atoms {
                fails.push(("clone-from".into(), format!("Pattern::clone_from / clone of the parse of {last:?} gives {:?}, the source is {:?}", q.atoms, fresh.atoms)));
            }
            if p.atoms != fresh.atoms {
                fails.push(("reparse".into(), format!("reparse history {:?} (text, case, norm) ends in {:?}, fresh parse gives {:?}", steps, p.atoms, fresh.atoms)));
            }
            // (b) escape round-trip
            let t = &case.literal;
            let esc = escape(t);
            let got: Vec<RefAtom> = Pattern::parse(&esc, cm, nm).atoms.iter().map(observe).collect();
            let (needle, ignore_case, normalize) = ref_build(t, cm, nm, false, false);
            let exp = if needle.is_empty() { vec![] } else { vec![RefAtom { needle, kind: AtomKind::Fuzzy, negative: false, ignore_case, normalize }] };
            if got != exp {
                let class = if !t.is_ascii() && (t.contains('\\') || t.contains(' ')) { "parse:non-ascii-backslash" } else { "escape-roundtrip" };
                fails.push((class.into(), format!("literal {t:?} escaped as {esc:?} parses to {} instead of the single fuzzy atom {}", show(&got), show(&exp))));
            }
            fails
        });
        match r {
            Err(p) => out.fail("panic", format!("parser panicked on {:?} / literal {:?}: {p}", case.texts, case.literal)),
            Ok(fails) => {
                for (s, m) in fails {
                    out.fail(s, m);
                }
            }
        }
        out
    }
}

/// byte decoder for the coverage-guided tier: every byte selects a char from a 64-entry table in
/// which markers, backslash and whitespace are frequent; 0xFF separates texts.
pub fn decode_pcase(data: &[u8]) -> PCase {
    const T: &[char] = &[
        'a', 'b', 'c', 'x', 'y', 'A', 'B', 'Z', '0', '9', '!', '^', '\'', '$', '\\', ' ', '!', '^', '\'', '$', '\\', ' ', '\\', ' ', '\t', '\n', '\r', '\u{a0}', '\u{3000}', '\u{b}', 'é', 'É', 'ä', 'σ', 'Σ', 'ς', 'ß', 'ǅ', '漢', 'ж', 'Ж', 'ñ', 'Æ', 'µ', 'ſ', '-', '_', '.', '/', '\u{301}', 'ɐ', 'Ɐ', 'e', 'E', 'o', 'q', 'İ', 'ı', '😀', 'か', 'd', 'f', 'g', 'h',
    ];
    let flags = data.first().copied().unwrap_or(0);
    let body = data.get(1..).unwrap_or(&[]);
    let mut parts: Vec<String> = body.split(|&b| b == 0xFF).take(4).map(|p| p.iter().take(24).map(|&b| T[b as usize % T.len()]).collect()).collect();
    if parts.is_empty() {
        parts.push(String::new());
    }
    let mut literal: Vec<char> = parts.pop().unwrap().chars().filter(|c| !c.is_whitespace() || *c == ' ').collect();
    while literal.len() >= 2 && literal[0] == '\\' && matches!(literal[1], '!' | '^' | '\'') {
        literal.remove(0);
    }
    if parts.is_empty() {
        parts.push(literal.iter().collect());
    }
    let hist_modes = if flags & 0x40 != 0 { (1..3u8).map(|i| ((flags % 3 + i) % 3, ((flags >> 2) + i) % 2)).collect() } else { vec![] };
    let repeat = (flags & 0x80 != 0).then_some(((flags % 3 + 1) % 3, ((flags >> 2) + 1) % 2));
    PCase { texts: parts, literal: literal.into_iter().collect(), case: flags % 3, norm: (flags >> 2) % 2, kind: (flags >> 3) % 5, hist_modes, repeat }
}
