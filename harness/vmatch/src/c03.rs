//! C03 — the score is the fzf scoring scheme applied to the reported alignment.

use crate::mcase::*;
use proptest::prelude::*;
use vcommon::driver::{Check, Outcome, Tier};
use vcommon::oracle::*;

pub struct C03;

impl Check for C03 {
    type Case = MCase;
    fn id(&self) -> &'static str {
        "C03"
    }
    fn rule(&self) -> String {
        "C02's domain with prefer_prefix off, plus long-needle cases (needle and haystack 2000-6400 chars tiled from {a,A,' ','-'}) for the never-wraps clause; all six algorithms x applicable representation pairs. Oracle: score_only == score_with_indices == independent re-implementation of the fzf scheme (own constants 16/3/1/10-9-8/5/4, first bonus doubled, run bonus inheritance, floor at 0) evaluated on the indices the function reports; when the unbounded reference exceeds 65535 the result must be a non-wrapping reading (clamped total or running saturation). Non-trivial: needle length >= 2 and the reported alignment has a gap or earns a bonus. Distinct by case hash.".into()
    }
    fn assumptions(&self) -> Vec<String> {
        vec!["needle is normalized".into(), "bonus corners the statement does not spell out (a whitespace char earns the whitespace bonus, a delimiter char earns 0) follow the pinned behaviour".into()]
    }
    fn total_cases(&self, tier: Tier) -> u64 {
        match tier {
            Tier::Quick => 150_000,
            Tier::Thorough => 8_000_000,
        }
    }
    fn strategy(&self, _tier: Tier) -> BoxedStrategy<MCase> {
        mcase_strategy(6, 3)
            .prop_map(|mut c| {
                c.cfg.prefer_prefix = false;
                c
            })
            .boxed()
    }
    fn run(&self, case: &MCase) -> Outcome {
        let mut out = Outcome::default();
        let mut cfg = case.cfg;
        cfg.prefer_prefix = false;
        let hay = case.hay.expand();
        let needle = case.needle.expand();
        if !needle.iter().all(|&c| is_fixed(c, cfg)) {
            out.label("skipped-needle-not-normalized");
            return out;
        }
        let profile = cfg.profile();
        let b = bonus_vec(&hay, &profile);
        let hs = Strs::new(hay.clone());
        let ns = Strs::new(needle.clone());
        let res = run_calls(&hs, &ns, cfg, &ALL_ALGOS, &[], 2);
        let mut nontrivial = false;
        for r in &res {
            out.sub_evals += 1;
            let pair = format!("{}x{}", r.hr.name(), r.nr.name());
            let ctx = || format!("{} on ({pair}); haystack={} needle={} cfg={cfg:?}", r.algo.name(), show(&hay), show(&needle));
            let so = match &r.score_only {
                Err(p) => {
                    out.fail(format!("panic:{}:{pair}", r.algo.name()), format!("score-only variant panicked: {p}; {}", ctx()));
                    continue;
                }
                Ok(x) => *x,
            };
            let (wi, idx) = match &r.with_idx {
                Err(p) => {
                    out.fail(format!("panic:{}:{pair}", r.algo.name()), format!("indices variant panicked: {p}; {}", ctx()));
                    continue;
                }
                Ok(x) => (x.0, &x.1),
            };
            if so != wi {
                out.fail(format!("score-only-vs-indices:{}", r.algo.name()), format!("score-only variant returned {so:?}, indices variant {wi:?}; {}", ctx()));
                continue;
            }
            let Some(score) = wi else { continue };
            if needle.is_empty() {
                if score != 0 {
                    out.fail("empty-needle-score", format!("empty needle scored {score}; {}", ctx()));
                }
                continue;
            }
            if idx.len() != needle.len() || idx.iter().any(|&i| i as usize >= hay.len()) || idx.windows(2).any(|w| w[0] >= w[1]) {
                // witness validity is C02's business; the scheme cannot be evaluated here
                out.label("skipped-invalid-witness");
                continue;
            }
            let ix: Vec<usize> = idx.iter().map(|&i| i as usize).collect();
            let rs = ref_score_b(&b, &ix);
            if needle.len() >= 2 && (rs.gaps > 0 || rs.any_bonus) {
                nontrivial = true;
            }
            if rs.gaps > 0 {
                out.label("alignment-with-gap");
            }
            if rs.any_bonus {
                out.label("alignment-with-bonus");
            }
            if r.hr == Repr::Unicode && hs.bytes.is_none() {
                out.label("non-ascii-haystack");
            }
            if rs.max_running > 65535 {
                out.label("reference>65535");
                let a = rs.total.min(65535);
                if score as i64 != a && score as i64 != rs.saturating {
                    out.fail(format!("wraps:{}", r.algo.name()), format!("returned {score}; the scheme gives {} (non-wrapping readings: {a} or {}); {}", rs.total, rs.saturating, ctx()));
                }
            } else {
                if rs.total > 50_000 {
                    out.label("reference>50000");
                }
                if score as i64 != rs.total {
                    out.fail(format!("score-mismatch:{}", r.algo.name()), format!("returned {score} for indices {:?} but the scheme gives {} on that alignment; {}", &idx[..idx.len().min(24)], rs.total, ctx()));
                }
            }
        }
        if case.needle.tile_to >= 2000 {
            out.label("long-needle");
        }
        out.nontrivial = nontrivial;
        out
    }
}
