//! C17 — string conversion keeps the documented grapheme guarantees.

use nucleo_matcher::{Utf32Str, Utf32String};
use proptest::prelude::*;
use serde::{Deserialize, Serialize};
use std::borrow::Cow;
use std::ops::Bound;
use unicode_segmentation::UnicodeSegmentation;
use vcommon::driver::{guarded, Check, Outcome, Tier};
use vcommon::gen::map_idx;

pub struct C17;

#[derive(Clone, Debug, Serialize, Deserialize, Hash)]
pub struct SCase {
    pub s: String,
    /// (start bound kind, end bound kind, start selector, end selector); kinds 0 incl 1 excl 2 unbounded
    pub ranges: Vec<(u8, u8, u16, u16)>,
}

fn blocks() -> BoxedStrategy<String> {
    let fixed: Vec<&'static str> = vec![
        "a", "b", "Z", "0", " ", "\t", "-", "/", "\r", "\n", "\r\n", "\n\r", "\r\r\n", "\r\n\n", "e\u{301}", "a\u{308}\u{301}", "\u{301}", "o\u{200d}", "👨\u{200d}👩\u{200d}👧", "👍🏽", "🇩🇪", "🇩🇪🇫", "🇦", "\u{1100}\u{1161}\u{11a8}", "\u{1100}\u{1100}\u{1161}", "\u{ac00}\u{11a8}", "\u{0600}a", "\u{0600}", "a\u{fe0f}", "✈\u{fe0f}", "é", "ß", "漢", "\u{a0}", "\u{3000}", "x\u{0903}", "\u{0e01}\u{0e33}", "\u{200b}", "\u{7f}", "\u{80}", "\u{2028}",
    ];
    prop_oneof![
        85 => proptest::sample::select(fixed).prop_map(|s| s.to_string()),
        10 => proptest::char::range('\u{0}', '\u{7f}').prop_map(|c| c.to_string()),
        5 => any::<char>().prop_map(|c| c.to_string()),
    ]
    .boxed()
}

fn reference(s: &str) -> (bool, Vec<char>) {
    if s.is_ascii() && !s.contains("\r\n") {
        (true, s.chars().collect())
    } else {
        (false, s.graphemes(true).map(|g| if g == "\r\n" { '\n' } else { g.chars().next().unwrap() }).collect())
    }
}

fn mk_bound(kind: u8, v: usize) -> Bound<usize> {
    match kind {
        0 => Bound::Included(v),
        1 => Bound::Excluded(v),
        _ => Bound::Unbounded,
    }
}

/// concrete (start bound, end bound, expected [from, to)) or None if this kind combination has no valid instance
fn concrete(len: usize, r: (u8, u8, u16, u16)) -> Option<(Bound<usize>, Bound<usize>, usize, usize)> {
    let (sk, ek, a, b) = r;
    let (sk, ek) = (sk % 3, ek % 3);
    // choose from <= to <= len
    let from = map_idx(a, len + 1);
    let to = from + map_idx(b, len - from + 1);
    let sb = match sk {
        0 => Bound::Included(from),
        1 => {
            if from == 0 {
                return None;
            }
            Bound::Excluded(from - 1)
        }
        _ => Bound::Unbounded,
    };
    let from = if sk == 2 { 0 } else { from };
    let eb = match ek {
        0 => {
            if to == 0 || to <= from {
                return None;
            }
            Bound::Included(to - 1)
        }
        1 => Bound::Excluded(to),
        _ => Bound::Unbounded,
    };
    let to = if ek == 2 { len } else { to };
    if from > to {
        return None;
    }
    let _ = mk_bound;
    Some((sb, eb, from, to))
}

fn content(u: Utf32Str<'_>) -> Vec<char> {
    u.chars().collect()
}

impl Check for C17 {
    type Case = SCase;
    fn id(&self) -> &'static str {
        "C17"
    }
    fn rule(&self) -> String {
        "strings of 0-40 building blocks: ASCII, CR/LF in every arrangement (\\r, \\n, \\r\\n, \\n\\r, \\r\\r\\n), base+combining marks, lone marks, ZWJ emoji sequences, skin-tone modifiers, regional-indicator pairs and odd runs, Hangul L/V/T jamo, prepend characters, variation selectors, control/boundary code points, arbitrary chars; plus generated valid slice ranges of all nine bound-kind combinations. Reference: is_ascii && !contains(CRLF) => Ascii(bytes) else first code point per extended grapheme cluster (unicode-segmentation) with CR LF -> LF; all constructors (Utf32Str::new, From<&str>, From<String>, From<Box<str>>, From<Cow> both arms), len/is_empty/is_ascii/get/chars (both directions)/slice/slice_u32/Display compared. Non-trivial: the string has a multi-code-point cluster or a CR LF pair. Distinct by case hash.".into()
    }
    fn assumptions(&self) -> Vec<String> {
        vec!["cluster boundaries are those of the unicode-segmentation crate (the same crate the library uses; trusted base for UAX #29)".into()]
    }
    fn total_cases(&self, tier: Tier) -> u64 {
        match tier {
            Tier::Quick => 200_000,
            Tier::Thorough => 15_000_000,
        }
    }
    fn strategy(&self, _tier: Tier) -> BoxedStrategy<SCase> {
        let ascii_block = prop_oneof![
            60 => proptest::sample::select(vec!["a", "b", "Z", "0", " ", "\t", "-", "/", "\u{b}", "\u{7f}", "\u{0}"]).prop_map(|s| s.to_string()),
            25 => proptest::sample::select(vec!["\r", "\n", "\r\n", "\n\r", "\r\r\n", "\r\n\n"]).prop_map(|s| s.to_string()),
            15 => proptest::char::range('\u{0}', '\u{7f}').prop_map(|c| c.to_string()),
        ];
        let ascii_no_lf = proptest::char::range('\u{0}', '\u{7f}').prop_map(|c| if c == '\n' { "\r".to_string() } else { c.to_string() });
        let blocks = prop_oneof![
            55 => proptest::collection::vec(blocks(), 0..=40),
            25 => proptest::collection::vec(ascii_block, 0..=40),
            20 => proptest::collection::vec(ascii_no_lf, 0..=40),
        ];
        (blocks, proptest::collection::vec((0u8..3, 0u8..3, any::<u16>(), any::<u16>()), 1..=6)).prop_map(|(b, ranges)| SCase { s: b.concat(), ranges }).boxed()
    }
    fn run(&self, case: &SCase) -> Outcome {
        let mut out = Outcome::default();
        let s = case.s.as_str();
        let (exp_ascii, exp) = reference(s);
        let multi = s.graphemes(true).any(|g| g.chars().count() > 1);
        out.nontrivial = multi;
        if s.contains("\r\n") {
            out.label("contains-CRLF");
        }
        if multi && !s.contains("\r\n") {
            out.label("multi-codepoint-cluster");
        }
        if exp_ascii {
            out.label("ascii-form");
        } else if s.is_ascii() {
            out.label("ascii-text-but-unicode-form");
        }
        if s.is_empty() {
            out.label("empty");
        }
        let r = guarded(|| {
            let mut fails: Vec<(String, String)> = vec![];
            let mut buf = vec!['x'; 3];
            let mut forms: Vec<(&'static str, Utf32String)> = vec![];
            {
                let u = Utf32Str::new(s, &mut buf);
                // record as owned for uniform comparison
                let owned = match u {
                    Utf32Str::Ascii(b) => {
                        if b != s.as_bytes() {
                            fails.push(("ascii-bytes".into(), format!("Utf32Str::new Ascii bytes differ from the original string {s:?}")));
                        }
                        Utf32String::Ascii(String::from_utf8_lossy(b).into_owned().into_boxed_str())
                    }
                    Utf32Str::Unicode(c) => Utf32String::Unicode(c.to_vec().into_boxed_slice()),
                };
                forms.push(("Utf32Str::new", owned));
            }
            forms.push(("From<&str>", Utf32String::from(s)));
            forms.push(("From<String>", Utf32String::from(s.to_string())));
            forms.push(("From<Box<str>>", Utf32String::from(s.to_string().into_boxed_str())));
            forms.push(("From<Cow::Borrowed>", Utf32String::from(Cow::Borrowed(s))));
            forms.push(("From<Cow::Owned>", Utf32String::from(Cow::<str>::Owned(s.to_string()))));
            for (name, f) in &forms {
                let is_ascii_variant = matches!(f, Utf32String::Ascii(_));
                if is_ascii_variant != exp_ascii {
                    fails.push(("variant".into(), format!("{name}({s:?}) produced the {} form, expected {}", if is_ascii_variant { "Ascii" } else { "Unicode" }, if exp_ascii { "Ascii" } else { "Unicode" })));
                    continue;
                }
                if let Utf32String::Ascii(b) = f {
                    if &**b != s {
                        fails.push(("ascii-bytes".into(), format!("{name}({s:?}): Ascii content {b:?} differs from the original")));
                    }
                }
                let u = f.slice(..);
                let got = content(u);
                if got != exp {
                    fails.push(("content".into(), format!("{name}({s:?}) content {got:?}, expected {exp:?}")));
                    continue;
                }
                if f.len() != exp.len() || u.len() != exp.len() || f.is_empty() != exp.is_empty() || u.is_empty() != exp.is_empty() || u.is_ascii() != exp_ascii {
                    fails.push(("len".into(), format!("{name}({s:?}) len {} / {} expected {}", f.len(), u.len(), exp.len())));
                }
                let rev: Vec<char> = u.chars().rev().collect();
                if rev.iter().rev().copied().collect::<Vec<_>>() != exp {
                    fails.push(("chars-rev".into(), format!("{name}({s:?}) reverse iteration {rev:?}")));
                }
                for (i, &c) in exp.iter().enumerate() {
                    if u.get(i as u32) != c {
                        fails.push(("get".into(), format!("{name}({s:?}).get({i}) = {:?}, expected {c:?}", u.get(i as u32))));
                        break;
                    }
                }
                let disp = format!("{f}");
                let disp2 = u.to_string();
                let want: String = exp.iter().collect();
                if disp != want || disp2 != want {
                    fails.push(("display".into(), format!("{name}({s:?}) displays {disp:?}/{disp2:?}, expected {want:?}")));
                }
                let _ = format!("{f:?}{u:?}");
                for &r in &case.ranges {
                    let Some((sb, eb, from, to)) = concrete(exp.len(), r) else { continue };
                    let want = &exp[from..to];
                    let a = content(u.slice((sb, eb)));
                    let b = content(f.slice((sb, eb)));
                    let conv = |b: Bound<usize>| match b {
                        Bound::Included(x) => Bound::Included(x as u32),
                        Bound::Excluded(x) => Bound::Excluded(x as u32),
                        Bound::Unbounded => Bound::Unbounded,
                    };
                    let c = content(u.slice_u32((conv(sb), conv(eb))));
                    let d = content(f.slice_u32((conv(sb), conv(eb))));
                    if a != want || b != want || c != want || d != want {
                        fails.push(("slice".into(), format!("{name}({s:?}) slice({sb:?},{eb:?}) = {a:?}/{b:?}/{c:?}/{d:?}, expected {want:?}")));
                        break;
                    }
                    if u.slice((sb, eb)).is_ascii() != exp_ascii {
                        fails.push(("slice".into(), format!("{name}({s:?}) slice changes representation")));
                    }
                }
            }
            fails
        });
        match r {
            Err(p) => out.fail("panic", format!("conversion / accessor panicked for {s:?}: {p}")),
            Ok(fails) => {
                for (sig, msg) in fails {
                    out.fail(sig, msg);
                }
            }
        }
        out
    }
}
