//! C17 — string conversion keeps the documented grapheme guarantees.

use nucleo_matcher::{Utf32Str, Utf32String};
use proptest::prelude::*;
use serde::{Deserialize, Serialize};
use std::borrow::Cow;
use std::ops::Bound;
use unicode_segmentation::UnicodeSegmentation;
use vcommon::driver::{guarded, Check, Outcome, Tier};
use vcommon::gen::map_idx;

pub struct C17;

#[derive(Clone, Debug, Serialize, Deserialize, Hash)]
pub struct SCase {
    pub s: String,
    /// (start bound kind, end bound kind, start selector, end selector); kinds 0 incl 1 excl 2 unbounded
    pub ranges: Vec<(u8, u8, u16, u16)>,
    /// strings (unit, repetitions) converted through the same scratch buffer before `s`
    #[serde(default)]
    pub prev: Vec<(String, u16)>,
    /// initial capacity of the (non-empty) scratch buffer handed to Utf32Str::new
    #[serde(default)]
    pub buf_cap: u16,
}

fn blocks() -> BoxedStrategy<String> {
    let fixed: Vec<&'static str> = vec![
        "a", "b", "Z", "0", " ", "\t", "-", "/", "\r", "\n", "\r\n", "\n\r", "\r\r\n", "\r\n\n", "e\u{301}", "a\u{308}\u{301}", "\u{301}", "o\u{200d}", "👨\u{200d}👩\u{200d}👧", "👍🏽", "🇩🇪", "🇩🇪🇫", "🇦", "\u{1100}\u{1161}\u{11a8}", "\u{1100}\u{1100}\u{1161}", "\u{ac00}\u{11a8}", "\u{0600}a", "\u{0600}", "a\u{fe0f}", "✈\u{fe0f}", "é", "ß", "漢", "\u{a0}", "\u{3000}", "x\u{0903}", "\u{0e01}\u{0e33}", "\u{200b}", "\u{7f}", "\u{80}", "\u{2028}",
    ];
    prop_oneof![
        85 => proptest::sample::select(fixed).prop_map(|s| s.to_string()),
        10 => proptest::char::range('\u{0}', '\u{7f}').prop_map(|c| c.to_string()),
        5 => any::<char>().prop_map(|c| c.to_string()),
    ]
    .boxed()
}

pub fn blocks_pub() -> BoxedStrategy<String> {
    blocks()
}

fn reference(s: &str) -> (bool, Vec<char>) {
    if s.is_ascii() && !s.contains("\r\n") {
        (true, s.chars().collect())
    } else {
        (false, s.graphemes(true).map(|g| if g == "\r\n" { '\n' } else { g.chars().next().unwrap() }).collect())
    }
}

fn mk_bound(kind: u8, v: usize) -> Bound<usize> {
    match kind {
        0 => Bound::Included(v),
        1 => Bound::Excluded(v),
        _ => Bound::Unbounded,
    }
}

/// concrete (start bound, end bound, expected [from, to)) or None if this kind combination has no valid instance
fn concrete(len: usize, r: (u8, u8, u16, u16)) -> Option<(Bound<usize>, Bound<usize>, usize, usize)> {
    let (sk, ek, a, b) = r;
    let (sk, ek) = (sk % 3, ek % 3);
    // choose from <= to <= len
    let from = map_idx(a, len + 1);
    let to = from + map_idx(b, len - from + 1);
    let sb = match sk {
        0 => Bound::Included(from),
        1 => {
            if from == 0 {
                return None;
            }
            Bound::Excluded(from - 1)
        }
        _ => Bound::Unbounded,
    };
    let from = if sk == 2 { 0 } else { from };
    let eb = match ek {
        0 => {
            if to == 0 || to <= from {
                return None;
            }
            Bound::Included(to - 1)
        }
        1 => Bound::Excluded(to),
        _ => Bound::Unbounded,
    };
    let to = if ek == 2 { len } else { to };
    if from > to {
        return None;
    }
    let _ = mk_bound;
    Some((sb, eb, from, to))
}

fn content(u: Utf32Str<'_>) -> Vec<char> {
    u.chars().collect()
}

impl Check for C17 {
    type Case = SCase;
    fn id(&self) -> &'static str {
        "C17"
    }
    fn rule(&self) -> String {
        "strings of 0-40 building blocks: ASCII, CR/LF in every arrangement (\\r, \\n, \\r\\n, \\n\\r, \\r\\r\\n), base+combining marks, lone marks, ZWJ emoji sequences, skin-tone modifiers, regional-indicator pairs and odd runs, Hangul L/V/T jamo, prepend characters, variation selectors, control/boundary code points, arbitrary chars; 15% of the strings are ASCII lines of 60-300 bytes with CR / LF / CR LF written at generated offsets, half of them at the last byte of a 16/32/64-byte block (+-2); in 30% of the cases 1-3 earlier strings (up to 2600 repetitions of a unit, i.e. beyond 1024 chars) are converted through the same scratch buffer first, and the buffer may start with a capacity of 1000-5000; 8% are non-ASCII lines of 33-200 mostly 3- and 4-byte characters; plus generated valid slice ranges of all nine bound-kind combinations. Reference: is_ascii && !contains(CRLF) => Ascii(bytes) else first code point per extended grapheme cluster (unicode-segmentation) with CR LF -> LF; all constructors (Utf32Str::new, From<&str>, From<String>, From<Box<str>>, From<Cow> both arms), len/is_empty/is_ascii/get/chars (forwards, reversed, and consumed from both ends in a generated order)/slice/slice_u32/Display (plain and with width / precision / fill specs: the content as it is, or padded as a whole) compared. Non-trivial: the string has a multi-code-point cluster or a CR LF pair. Distinct by case hash.".into()
    }
    fn assumptions(&self) -> Vec<String> {
        vec!["cluster boundaries are those of the unicode-segmentation crate (the same crate the library uses; trusted base for UAX #29)".into()]
    }
    fn total_cases(&self, tier: Tier) -> u64 {
        match tier {
            Tier::Quick => 200_000,
            Tier::Thorough => 15_000_000,
        }
    }
    fn strategy(&self, _tier: Tier) -> BoxedStrategy<SCase> {
        let ascii_block = prop_oneof![
            60 => proptest::sample::select(vec!["a", "b", "Z", "0", " ", "\t", "-", "/", "\u{b}", "\u{7f}", "\u{0}"]).prop_map(|s| s.to_string()),
            25 => proptest::sample::select(vec!["\r", "\n", "\r\n", "\n\r", "\r\r\n", "\r\n\n"]).prop_map(|s| s.to_string()),
            15 => proptest::char::range('\u{0}', '\u{7f}').prop_map(|c| c.to_string()),
        ];
        let ascii_no_lf = proptest::char::range('\u{0}', '\u{7f}').prop_map(|c| if c == '\n' { "\r".to_string() } else { c.to_string() });
        let blocks = prop_oneof![
            55 => proptest::collection::vec(blocks(), 0..=40),
            25 => proptest::collection::vec(ascii_block, 0..=40),
            20 => proptest::collection::vec(ascii_no_lf, 0..=40),
        ];
        // long ASCII lines with CR / LF placed around every offset (block-wise scanners, SIMD tails)
        let long_ascii = (proptest::collection::vec(prop_oneof![8 => Just('a'), 1 => Just(' '), 1 => proptest::char::range('\u{20}', '\u{7e}')], 60..=300), proptest::collection::vec((any::<u16>(), proptest::sample::select(vec!["\r\n", "\r", "\n", "\r\n", "\n\r", "\r\r\n"]), -2i32..=2, any::<bool>()), 1..=3)).prop_map(|(mut cs, ins)| {
            for (sel, what, delta, align) in ins {
                let n = cs.len();
                // either anywhere, or right at the end of a 16/32/64-byte block (+- 2)
                let pos = if align {
                    let blk = [16usize, 32, 64][sel as usize % 3];
                    let k = 1 + map_idx(sel, (n / blk).max(1));
                    ((k * blk) as i32 - 1 + delta).clamp(0, n as i32) as usize
                } else {
                    map_idx(sel, n + 1)
                };
                let w: Vec<char> = what.chars().collect();
                // overwrite (keeps later offsets where they are) when it fits, else insert
                if pos + w.len() <= n {
                    cs[pos..pos + w.len()].copy_from_slice(&w);
                } else {
                    cs.splice(pos.min(n)..pos.min(n), w);
                }
            }
            vec![cs.into_iter().collect::<String>()]
        });
        // long non-ASCII lines (more than 64 clusters, mostly 3- and 4-byte characters)
        let wide = prop_oneof![70 => proptest::sample::select(vec!['漢', '字', 'か', '한', '€']), 15 => proptest::sample::select(vec!['😀', '𝄞', '𠀀']), 10 => Just('é'), 5 => Just('a')];
        let widest = prop_oneof![80 => proptest::sample::select(vec!['漢', '字', 'か']), 20 => proptest::sample::select(vec!['😀', '𠀀'])];
        let long_unicode = prop_oneof![3 => proptest::collection::vec(wide, 33..=200), 1 => proptest::collection::vec(widest, 64..=140)].prop_map(|cs| vec![cs.into_iter().collect::<String>()]);
        let blocks = prop_oneof![78 => blocks, 14 => long_ascii, 8 => long_unicode];
        let prev = prop_oneof![
            70 => Just(vec![]),
            30 => proptest::collection::vec((prop_oneof![3 => proptest::sample::select(vec!["é", "a\r\n", "e\u{301}x", "漢字", "ab"]).prop_map(|s| s.to_string()), 1 => crate::c17::blocks_pub()], prop_oneof![2 => 1u16..40, 1 => 300u16..700, 1 => 1025u16..2600]), 1..=3),
        ];
        (blocks, proptest::collection::vec((0u8..3, 0u8..3, any::<u16>(), any::<u16>()), 1..=6), prev, prop_oneof![3 => Just(0u16), 1 => 1000u16..5000]).prop_map(|(b, ranges, prev, buf_cap)| SCase { s: b.concat(), ranges, prev, buf_cap }).boxed()
    }
    fn run(&self, case: &SCase) -> Outcome {
        let mut out = Outcome::default();
        let s = case.s.as_str();
        let (exp_ascii, exp) = reference(s);
        let multi = s.graphemes(true).any(|g| g.chars().count() > 1);
        out.nontrivial = multi;
        if s.contains("\r\n") {
            out.label("contains-CRLF");
        }
        if multi && !s.contains("\r\n") {
            out.label("multi-codepoint-cluster");
        }
        if exp_ascii {
            out.label("ascii-form");
        } else if s.is_ascii() {
            out.label("ascii-text-but-unicode-form");
        }
        if s.is_empty() {
            out.label("empty");
        }
        if !s.is_ascii() && s.chars().count() >= 64 {
            out.label("non-ascii-with-64-or-more-chars");
        }
        if s.len() > 64 {
            out.label("longer-than-64-bytes");
            if s.as_bytes().windows(2).enumerate().any(|(i, w)| w == b"\r\n" && (i + 1) % 16 == 0) {
                out.label("CRLF-straddles-a-16-byte-boundary");
            }
        }
        if case.prev.iter().any(|(u, r)| u.chars().count() * *r as usize > 1024) {
            out.label("scratch-buffer-reused-after-more-than-1024-chars");
        } else if !case.prev.is_empty() {
            out.label("scratch-buffer-reused");
        }
        let r = guarded(|| {
            let mut fails: Vec<(String, String)> = vec![];
            let mut buf = Vec::with_capacity(case.buf_cap as usize);
            buf.extend(['x'; 3]);
            // earlier conversions through the same scratch buffer must not leak into later ones
            for (unit, rep) in &case.prev {
                let t = unit.repeat(*rep as usize);
                let (ea, e) = reference(&t);
                let u = Utf32Str::new(&t, &mut buf);
                if u.is_ascii() != ea || content(u) != e {
                    fails.push(("buffer-reuse".into(), format!("Utf32Str::new on a reused buffer: {:?} x {rep} gives {} chars (ascii form: {}), expected {} (ascii form: {ea})", unit, u.len(), u.is_ascii(), e.len())));
                }
            }
            let mut forms: Vec<(&'static str, Utf32String)> = vec![];
            {
                let u = Utf32Str::new(s, &mut buf);
                // record as owned for uniform comparison
                let owned = match u {
                    Utf32Str::Ascii(b) => {
                        if b != s.as_bytes() {
                            fails.push(("ascii-bytes".into(), format!("Utf32Str::new Ascii bytes differ from the original string {s:?}")));
                        }
                        Utf32String::Ascii(String::from_utf8_lossy(b).into_owned().into_boxed_str())
                    }
                    Utf32Str::Unicode(c) => Utf32String::Unicode(c.to_vec().into_boxed_slice()),
                };
                forms.push(("Utf32Str::new", owned));
            }
            forms.push(("From<&str>", Utf32String::from(s)));
            forms.push(("From<String>", Utf32String::from(s.to_string())));
            forms.push(("From<Box<str>>", Utf32String::from(s.to_string().into_boxed_str())));
            forms.push(("From<Cow::Borrowed>", Utf32String::from(Cow::Borrowed(s))));
            forms.push(("From<Cow::Owned>", Utf32String::from(Cow::<str>::Owned(s.to_string()))));
            for (name, f) in &forms {
                let is_ascii_variant = matches!(f, Utf32String::Ascii(_));
                if is_ascii_variant != exp_ascii {
                    fails.push(("variant".into(), format!("{name}({s:?}) produced the {} form, expected {}", if is_ascii_variant { "Ascii" } else { "Unicode" }, if exp_ascii { "Ascii" } else { "Unicode" })));
                    continue;
                }
                if let Utf32String::Ascii(b) = f {
                    if &**b != s {
                        fails.push(("ascii-bytes".into(), format!("{name}({s:?}): Ascii content {b:?} differs from the original")));
                    }
                }
                let u = f.slice(..);
                let got = content(u);
                if got != exp {
                    fails.push(("content".into(), format!("{name}({s:?}) content {got:?}, expected {exp:?}")));
                    continue;
                }
                if f.len() != exp.len() || u.len() != exp.len() || f.is_empty() != exp.is_empty() || u.is_empty() != exp.is_empty() || u.is_ascii() != exp_ascii {
                    fails.push(("len".into(), format!("{name}({s:?}) len {} / {} expected {}", f.len(), u.len(), exp.len())));
                }
                let rev: Vec<char> = u.chars().rev().collect();
                if rev.iter().rev().copied().collect::<Vec<_>>() != exp {
                    fails.push(("chars-rev".into(), format!("{name}({s:?}) reverse iteration {rev:?}")));
                }
                // consumption from both ends of one iterator, in a generated order
                {
                    let mut it = u.chars();
                    let mut model: std::collections::VecDeque<char> = exp.iter().copied().collect();
                    let order = case.ranges.first().map_or(0x5a5a, |r| r.2 ^ r.3.rotate_left(5)) as u32 | 0x1_0000;
                    let mut k = 0u32;
                    loop {
                        let back = (order >> (k % 17)) & 1 == 1;
                        let (got, want) = if back { (it.next_back(), model.pop_back()) } else { (it.next(), model.pop_front()) };
                        if got != want {
                            fails.push(("chars-both-ends".into(), format!("{name}({s:?}).chars(): step {k} ({}) returned {got:?}, expected {want:?}", if back { "next_back" } else { "next" })));
                            break;
                        }
                        if want.is_none() {
                            if it.next().is_some() || it.next_back().is_some() {
                                fails.push(("chars-both-ends".into(), format!("{name}({s:?}).chars() yields again after it was exhausted")));
                            }
                            break;
                        }
                        k += 1;
                    }
                }
                for (i, &c) in exp.iter().enumerate() {
                    if u.get(i as u32) != c {
                        fails.push(("get".into(), format!("{name}({s:?}).get({i}) = {:?}, expected {c:?}", u.get(i as u32))));
                        break;
                    }
                }
                let disp = format!("{f}");
                let disp2 = u.to_string();
                let want: String = exp.iter().collect();
                if disp != want || disp2 != want {
                    fails.push(("display".into(), format!("{name}({s:?}) displays {disp:?}/{disp2:?}, expected {want:?}")));
                }
                // format specs: the text is the content, as it is or padded / truncated as a whole like a str
                for (got, like_str) in [
                    (format!("{u:<7}"), format!("{want:<7}")),
                    (format!("{f:>12.3}"), format!("{want:>12.3}")),
                    (format!("{u:^9}"), format!("{want:^9}")),
                    (format!("{f:-<5}"), format!("{want:-<5}")),
                ] {
                    if got != want && got != like_str {
                        fails.push(("display-format-spec".into(), format!("{name}({s:?}) formatted with a width/precision gives {got:?}; the content is {want:?} (a str would give {like_str:?})")));
                        break;
                    }
                }
                let _ = format!("{f:?}{u:?}");
                for &r in &case.ranges {
                    let Some((sb, eb, from, to)) = concrete(exp.len(), r) else { continue };
                    let want = &exp[from..to];
                    let a = content(u.slice((sb, eb)));
                    let b = content(f.slice((sb, eb)));
                    let conv = |b: Bound<usize>| match b {
                        Bound::Included(x) => Bound::Included(x as u32),
                        Bound::Excluded(x) => Bound::Excluded(x as u32),
                        Bound::Unbounded => Bound::Unbounded,
                    };
                    let c = content(u.slice_u32((conv(sb), conv(eb))));
                    let d = content(f.slice_u32((conv(sb), conv(eb))));
                    if a != want || b != want || c != want || d != want {
                        fails.push(("slice".into(), format!("{name}({s:?}) slice({sb:?},{eb:?}) = {a:?}/{b:?}/{c:?}/{d:?}, expected {want:?}")));
                        break;
                    }
                    if u.slice((sb, eb)).is_ascii() != exp_ascii {
                        fails.push(("slice".into(), format!("{name}({s:?}) slice changes representation")));
                    }
                }
            }
            fails
        });
        match r {
            Err(p) => out.fail("panic", format!("conversion / accessor panicked for {s:?}: {p}")),
            Ok(fails) => {
                for (sig, msg) in fails {
                    out.fail(sig, msg);
                }
            }
        }
        out
    }
}
