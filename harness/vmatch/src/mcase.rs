//! Shared case type, generators and call plumbing for the matcher-side properties.

use nucleo_matcher::{Matcher, Utf32Str};
use proptest::prelude::*;
use serde::{Deserialize, Serialize};
use vcommon::driver::guarded;
use vcommon::gen::{self, chars_as_string, derive_needle, map_idx, needle_mode, text_from, NeedleMode};
use vcommon::oracle::{norm_fix, Cfg};

#[derive(Clone, Copy, Debug, PartialEq, Eq, Hash, Serialize, Deserialize)]
pub enum Algo {
    Fuzzy,
    Greedy,
    Substring,
    Prefix,
    Postfix,
    Exact,
}
pub const ALL_ALGOS: [Algo; 6] = [Algo::Fuzzy, Algo::Greedy, Algo::Substring, Algo::Prefix, Algo::Postfix, Algo::Exact];
impl Algo {
    pub fn name(self) -> &'static str {
        match self {
            Algo::Fuzzy => "fuzzy",
            Algo::Greedy => "greedy",
            Algo::Substring => "substring",
            Algo::Prefix => "prefix",
            Algo::Postfix => "postfix",
            Algo::Exact => "exact",
        }
    }
}

pub fn call(m: &mut Matcher, algo: Algo, h: Utf32Str<'_>, n: Utf32Str<'_>, idx: Option<&mut Vec<u32>>) -> Option<u16> {
    match (algo, idx) {
        (Algo::Fuzzy, None) => m.fuzzy_match(h, n),
        (Algo::Fuzzy, Some(i)) => m.fuzzy_indices(h, n, i),
        (Algo::Greedy, None) => m.fuzzy_match_greedy(h, n),
        (Algo::Greedy, Some(i)) => m.fuzzy_indices_greedy(h, n, i),
        (Algo::Substring, None) => m.substring_match(h, n),
        (Algo::Substring, Some(i)) => m.substring_indices(h, n, i),
        (Algo::Prefix, None) => m.prefix_match(h, n),
        (Algo::Prefix, Some(i)) => m.prefix_indices(h, n, i),
        (Algo::Postfix, None) => m.postfix_match(h, n),
        (Algo::Postfix, Some(i)) => m.postfix_indices(h, n, i),
        (Algo::Exact, None) => m.exact_match(h, n),
        (Algo::Exact, Some(i)) => m.exact_indices(h, n, i),
    }
}

/// A text that may be a short motif tiled to a large length (limit classes) plus a literal tail
#[derive(Clone, Debug, Serialize, Deserialize, Hash, PartialEq, Eq)]
pub struct Text {
    #[serde(with = "chars_as_string")]
    pub motif: Vec<char>,
    /// 0 = use the motif as is; otherwise tile the motif to exactly this length
    #[serde(default)]
    pub tile_to: u32,
    #[serde(with = "chars_as_string", default)]
    pub tail: Vec<char>,
    /// literal text in front of the (tiled) motif
    #[serde(with = "chars_as_string", default)]
    pub head: Vec<char>,
}
impl Text {
    pub fn plain(v: Vec<char>) -> Text {
        Text { motif: v, tile_to: 0, tail: vec![], head: vec![] }
    }
    pub fn expand(&self) -> Vec<char> {
        let mut v: Vec<char> = self.head.clone();
        if self.tile_to == 0 || self.motif.is_empty() {
            v.extend_from_slice(&self.motif);
        } else {
            v.extend(self.motif.iter().copied().cycle().take(self.tile_to as usize));
        }
        v.extend_from_slice(&self.tail);
        v
    }
}

#[derive(Clone, Debug, Serialize, Deserialize, Hash, PartialEq, Eq)]
pub struct MCase {
    pub hay: Text,
    pub needle: Text,
    pub cfg: Cfg,
    /// prior content of the indices vector
    #[serde(default)]
    pub prior: Vec<u32>,
    /// 0: capacity == len (exactly full), 1: spare capacity, 2: default growth
    #[serde(default)]
    pub cap_mode: u8,
}

#[derive(Clone, Copy, Debug, PartialEq, Eq, Hash)]
pub enum Repr {
    Ascii,
    Unicode,
}
impl Repr {
    pub fn name(self) -> &'static str {
        match self {
            Repr::Ascii => "Ascii",
            Repr::Unicode => "Unicode",
        }
    }
}

pub struct Strs {
    pub chars: Vec<char>,
    pub bytes: Option<Vec<u8>>,
}
impl Strs {
    pub fn new(chars: Vec<char>) -> Strs {
        let bytes = chars.iter().all(|c| c.is_ascii()).then(|| chars.iter().map(|&c| c as u8).collect());
        Strs { chars, bytes }
    }
    pub fn reprs(&self) -> Vec<Repr> {
        if self.bytes.is_some() {
            vec![Repr::Ascii, Repr::Unicode]
        } else {
            vec![Repr::Unicode]
        }
    }
    pub fn get(&self, r: Repr) -> Utf32Str<'_> {
        match r {
            Repr::Ascii => Utf32Str::Ascii(self.bytes.as_ref().expect("ascii repr of non-ascii text")),
            Repr::Unicode => Utf32Str::Unicode(&self.chars),
        }
    }
}

pub fn prior_vec(prior: &[u32], cap_mode: u8) -> Vec<u32> {
    match cap_mode {
        0 => {
            let mut v = Vec::with_capacity(prior.len());
            v.extend_from_slice(prior);
            v
        }
        1 => {
            let mut v = Vec::with_capacity(prior.len() + 4096);
            v.extend_from_slice(prior);
            v
        }
        _ => prior.to_vec(),
    }
}

#[derive(Debug, Clone)]
pub struct CallRes {
    pub algo: Algo,
    pub hr: Repr,
    pub nr: Repr,
    /// score-only result (Err = panic message)
    pub score_only: Result<Option<u16>, String>,
    /// indices variant result and the vector afterwards
    pub with_idx: Result<(Option<u16>, Vec<u32>), String>,
}

/// run the selected algorithms for every applicable representation pair. One matcher serves the
/// whole case (independence of the call history is C10's property and is checked there against
/// fresh matchers); it is replaced after a panic.
pub fn run_calls(hay: &Strs, needle: &Strs, cfg: Cfg, algos: &[Algo], prior: &[u32], cap_mode: u8) -> Vec<CallRes> {
    let mut out = vec![];
    let mut m = Matcher::new(cfg.to_config());
    for hr in hay.reprs() {
        for nr in needle.reprs() {
            for &algo in algos {
                let h = hay.get(hr);
                let n = needle.get(nr);
                let score_only = guarded(|| call(&mut m, algo, h, n, None));
                if score_only.is_err() {
                    m = Matcher::new(cfg.to_config());
                }
                let with_idx = guarded(|| {
                    let mut v = prior_vec(prior, cap_mode);
                    let r = call(&mut m, algo, h, n, Some(&mut v));
                    (r, v)
                });
                if with_idx.is_err() {
                    m = Matcher::new(cfg.to_config());
                }
                out.push(CallRes { algo, hr, nr, score_only, with_idx });
            }
        }
    }
    out
}

// ------------------------------------------------------------------------------------------
// generators
// ------------------------------------------------------------------------------------------

fn hay_sels() -> BoxedStrategy<Vec<u16>> {
    prop_oneof![
        2 => Just(vec![]),
        3 => proptest::collection::vec(any::<u16>(), 1..=1),
        70 => proptest::collection::vec(any::<u16>(), 2..=12),
        25 => proptest::collection::vec(any::<u16>(), 13..=200),
    ]
    .boxed()
}

/// limit classes: (haystack length, needle length)
pub const LIMIT_SIZES_FIXED: &[(u32, u32)] = &[
    (1024, 100),
    (1025, 100),
    (1024, 101),
    (1023, 100),
    (320, 319),
    (321, 320),
    (400, 256),
    (401, 256),
    (51200, 2),
    (51201, 2),
    (34134, 3),
    (65535, 1),
    (65536, 1),
    (65535, 2),
    (65536, 2),
    (70000, 3),
    (100_000, 5),
    (2100, 2047),
    (2100, 2048),
    (2100, 2049),
    (4000, 3000),
    (120_000, 2049),
    // windows only slightly longer than a very long needle (few matrix columns, many rows)
    (2048, 2047),
    (2049, 2048),
    (2050, 2049),
    (2060, 2049),
    (2522, 2521),
    (2530, 2521),
    (2700, 2690),
    (3003, 3000),
    (5010, 5000),
];

/// size in bytes of the scratch layout the matrix needs for a window of `h` haystack characters of
/// `char_bytes` bytes each and a needle of `n` characters (own arithmetic: haystack copy, one bonus
/// byte per char, one u16 row offset per needle char, 8-byte score cells for h+1-n columns, one
/// matrix byte per cell), fields aligned to 1/1/2/8/1
pub fn scratch_bytes(h: usize, n: usize, char_bytes: usize) -> usize {
    let up = |x: usize, a: usize| (x + a - 1) / a * a;
    let bonus = h * char_bytes;
    let rows = up(bonus + h, 2);
    let score = up(rows + 2 * n, 8);
    let matrix = score + 8 * (h + 1 - n);
    matrix + (h + 1 - n) * n
}
/// size of the matcher's scratch slab: 2048 chars + 2048 bonus bytes + 2048 u16 + 2048 8-byte cells + 100 KiB
pub const SLAB_BYTES: usize = 2048 * 4 + 2048 + 2048 * 2 + 2048 * 8 + 100 * 1024;
/// largest window that still fits the slab for a needle of n chars
pub fn slab_limit(n: usize, char_bytes: usize) -> usize {
    let mut h = n;
    while scratch_bytes(h + 1, n, char_bytes) <= SLAB_BYTES {
        h += 1;
    }
    h
}

/// fixed limit classes plus the slab-size boundaries (which bind before the cell-count limit for
/// short needles, differently for the two haystack representations)
pub fn limit_sizes() -> &'static Vec<(u32, u32)> {
    static L: std::sync::OnceLock<Vec<(u32, u32)>> = std::sync::OnceLock::new();
    L.get_or_init(|| {
        let mut v = LIMIT_SIZES_FIXED.to_vec();
        for n in [2usize, 3, 5, 10, 50] {
            for cb in [1usize, 4] {
                let h = slab_limit(n, cb) as i64;
                for d in [-1i64, 0, 1, 2, 40, 900] {
                    v.push(((h + d) as u32, n as u32));
                }
            }
        }
        v
    })
}

fn regular_case() -> BoxedStrategy<MCase> {
    (gen::any_palette(), hay_sels(), gen::any_cfg(), proptest::collection::vec(any::<u32>(), 0..=8), 0u8..3)
        .prop_flat_map(|(pal, hs, cfg, prior, cap_mode)| {
            let hay = text_from(&pal, &hs);
            let maxn = hay.len().min(8).max(1);
            (Just(pal), Just(hay), Just(cfg), needle_mode(maxn), Just(prior), Just(cap_mode))
        })
        .prop_map(|(pal, hay, cfg, mode, prior, cap_mode)| {
            let needle = derive_needle(&hay, &pal, cfg, &mode);
            MCase { hay: Text::plain(hay), needle: Text::plain(needle), cfg, prior, cap_mode }
        })
        .boxed()
}

fn limit_case() -> BoxedStrategy<MCase> {
    (
        gen::any_palette(),
        proptest::collection::vec(any::<u16>(), 1..=5),
        gen::any_cfg(),
        0usize..limit_sizes().len(),
        // needle shape: 0 same motif (positive), 1 motif + mutated tail, 2 first motif char only
        0u8..3,
        any::<u16>(),
        proptest::collection::vec(any::<u32>(), 0..=3),
    )
        .prop_map(|(pal, ms, cfg, size, shape, mutsel, prior)| {
            let motif = text_from(&pal, &ms);
            let (hl, nl) = limit_sizes()[size];
            let nmotif: Vec<char> = motif.iter().map(|&c| norm_fix(vcommon::oracle::norm(c, cfg), cfg)).collect();
            let needle = match shape {
                0 => Text { motif: nmotif, tile_to: nl, tail: vec![], head: vec![] },
                1 => Text { motif: nmotif, tile_to: nl.saturating_sub(1), tail: vec![norm_fix(pal[map_idx(mutsel, pal.len())], cfg)], head: vec![] },
                _ => Text { motif: vec![nmotif[0]], tile_to: nl, tail: vec![], head: vec![] },
            };
            MCase { hay: Text { motif, tile_to: hl, tail: vec![], head: vec![] }, needle, cfg, prior, cap_mode: 2 }
        })
        .boxed()
}

/// long-needle cases for the "never wraps" clause: needle and haystack 2k-6k chars from {a,A,' ','-'}
fn long_case() -> BoxedStrategy<MCase> {
    (proptest::collection::vec(any::<u16>(), 1..=6), 2000u32..6000, 0u32..400, any::<bool>(), any::<bool>(), 0u8..3)
        .prop_map(|(ms, nl, extra, ic, nz, profile)| {
            let pal = ['a', 'A', ' ', '-'];
            let motif = text_from(&pal, &ms);
            let cfg = Cfg { ignore_case: ic, normalize: nz, prefer_prefix: false, profile };
            let nmotif: Vec<char> = motif.iter().map(|&c| vcommon::oracle::norm(c, cfg)).collect();
            MCase { hay: Text { motif, tile_to: nl + extra, tail: vec![], head: vec![] }, needle: Text { motif: nmotif, tile_to: nl, tail: vec![], head: vec![] }, cfg, prior: vec![], cap_mode: 2 }
        })
        .boxed()
}

/// matches far away from the haystack start, or with a huge gap: a small haystack behind (or split around)
/// 65530..200000 filler characters that no needle character matches (offsets and gaps beyond 16 bits)
fn far_case() -> BoxedStrategy<MCase> {
    (gen::any_palette(), hay_sels(), gen::any_cfg(), proptest::sample::select(vec![65_530u32, 65_533, 65_534, 65_535, 65_536, 65_537, 65_540, 70_000, 131_072, 200_000]), 0u8..3, any::<bool>(), proptest::collection::vec(any::<u32>(), 0..=2))
        .prop_flat_map(|(pal, hs, cfg, fill, shape, ascii_fill, prior)| {
            let hay = text_from(&pal, &hs);
            let maxn = hay.len().min(8).max(1);
            (Just(pal), Just(hay), Just(cfg), needle_mode(maxn), Just(fill), Just(shape), Just(ascii_fill), Just(prior))
        })
        .prop_map(|(pal, hay, cfg, mode, fill, shape, ascii_fill, prior)| {
            let needle = derive_needle(&hay, &pal, cfg, &mode);
            let filler = if ascii_fill { 'q' } else { 'й' };
            // shape 0: filler then the small haystack; 1: first char, filler, rest (one huge gap); 2: small haystack, filler, small haystack again
            let text = match shape {
                0 => Text { motif: vec![filler], tile_to: fill, tail: hay, head: vec![] },
                1 => {
                    let k = hay.len().min(1);
                    Text { motif: vec![filler], tile_to: fill, tail: hay[k..].to_vec(), head: hay[..k].to_vec() }
                }
                _ => Text { motif: vec![filler], tile_to: fill, tail: hay.clone(), head: hay },
            };
            MCase { hay: text, needle: Text::plain(needle), cfg, prior, cap_mode: 2 }
        })
        .boxed()
}

/// the C01/C02/C03 domain. `limit_pct` / `long_pct` in percent of cases.
pub fn mcase_strategy(limit_w: u32, long_w: u32) -> BoxedStrategy<MCase> {
    let reg_w = 1000 - limit_w - long_w - if limit_w > 0 { 6 } else { 0 };
    if limit_w == 0 && long_w == 0 {
        return regular_case();
    }
    let mut v: Vec<(u32, BoxedStrategy<MCase>)> = vec![(reg_w, regular_case())];
    if limit_w > 0 {
        v.push((limit_w, limit_case()));
    }
    if long_w > 0 {
        v.push((long_w, long_case()));
    }
    if limit_w > 0 {
        v.push((6, far_case()));
    }
    proptest::strategy::Union::new_weighted(v).boxed()
}

pub fn show(v: &[char]) -> String {
    let s: String = v.iter().collect();
    if v.len() > 60 {
        format!("{:?}…(len {})", v.iter().take(60).collect::<String>(), v.len())
    } else {
        format!("{s:?}")
    }
}

pub fn unused(_: &NeedleMode) {}
