//! C01 — fuzzy matching decides exactly the normalized-subsequence relation.

use crate::mcase::*;
use proptest::prelude::*;
use vcommon::driver::{Check, Outcome, Tier};
use vcommon::oracle::*;

pub struct C01;

impl Check for C01 {
    type Case = MCase;
    fn id(&self) -> &'static str {
        "C01"
    }
    fn rule(&self) -> String {
        "generated (haystack, normalized needle, config) from small palettes over weighted pools (ASCII, whitespace, delimiters, Latin with/without NFKD base, lower-case-but-folding chars, Greek/Cyrillic, CJK, emoji/marks); needle = subsequence of the normalized haystack / one-char mutation / substring / whole / longer / independent draw / empty; 1% limit-size classes by tiling (cells around 100*1024, needle around 2048, haystack around 65535, 100k); every applicable representation pair (Ascii/Unicode x Ascii/Unicode) x {fuzzy_match, fuzzy_indices, fuzzy_match_greedy, fuzzy_indices_greedy}. Non-trivial: needle length >= 2, haystack longer than needle, and (expected match, or the needle's character multiset is contained in the normalized haystack's so that no character-count prefilter can reject). Distinct by hash of the whole case.".into()
    }
    fn assumptions(&self) -> Vec<String> {
        vec![
            "needle characters are fixed points of the configured per-character map (documented precondition: needle must already be normalized)".into(),
            "Latin normalization of a single character is the crate's public chars::normalize (validated against NFKD by C16); case folding is the oracle's own UCD-derived table".into(),
        ]
    }
    fn total_cases(&self, tier: Tier) -> u64 {
        match tier {
            Tier::Quick => 300_000,
            Tier::Thorough => 10_000_000,
        }
    }
    fn strategy(&self, _tier: Tier) -> BoxedStrategy<MCase> {
        mcase_strategy(10, 0)
    }
    fn run(&self, case: &MCase) -> Outcome {
        let mut out = Outcome::default();
        let cfg = case.cfg;
        let hay = case.hay.expand();
        let needle = case.needle.expand();
        if !needle.iter().all(|&c| is_fixed(c, cfg)) {
            out.label("skipped-needle-not-normalized");
            return out;
        }
        let nh = norm_vec(&hay, cfg);
        let expected = is_subsequence(&needle, &nh);
        let hs = Strs::new(hay.clone());
        let ns = Strs::new(needle.clone());
        out.label(if expected { "expected-match" } else { "expected-no-match" });
        if needle.is_empty() {
            out.label("empty-needle");
        }
        if hay.is_empty() {
            out.label("empty-haystack");
        }
        if needle.len() == 1 {
            out.label("needle-len-1");
        }
        if needle.len() == hay.len() {
            out.label("equal-length");
        }
        if needle.len() > hay.len() {
            out.label("needle-longer");
        }
        if case.hay.tile_to > 0 {
            out.label("limit-class");
            if hay.len() * needle.len() > 100 * 1024 {
                out.label("beyond-matrix-limit");
            }
        }
        if hs.bytes.is_some() && ns.bytes.is_some() {
            out.label("all-four-representations");
        }
        if hay.iter().any(|c| c.is_lowercase() && ucd_fold(*c) != *c) {
            out.label("lowercase-but-folding-char");
        }
        let contained = multiset_contained(&needle, &nh);
        if !expected && contained && needle.len() >= 2 {
            out.label("near-miss(multiset-contained)");
        }
        out.nontrivial = needle.len() >= 2 && hay.len() > needle.len() && (expected || contained);

        let res = run_calls(&hs, &ns, cfg, &[Algo::Fuzzy, Algo::Greedy], &[], 2);
        for r in &res {
            out.sub_evals += 2;
            let pair = format!("{}x{}", r.hr.name(), r.nr.name());
            let mut decide = |entry: &str, got: Result<bool, &String>| {
                match got {
                    Err(p) => out.fail(format!("panic:{}:{pair}", r.algo.name()), format!("{entry} panicked: {p}; haystack={} needle={} cfg={cfg:?}", show(&hay), show(&needle))),
                    Ok(g) if g != expected => {
                        let sig = if r.hr == Repr::Ascii && r.nr == Repr::Unicode && expected && !g {
                            "ascii-haystack-unicode-needle:missed".to_string()
                        } else {
                            format!("decision:{}:{pair}:expected={expected}", r.algo.name())
                        };
                        out.fail(sig, format!("{entry} on ({pair}) returned {} but the needle {} a subsequence of the normalized haystack; haystack={} needle={} cfg={cfg:?}", if g { "Some" } else { "None" }, if expected { "is" } else { "is not" }, show(&hay), show(&needle)))
                    }
                    Ok(_) => {}
                }
            };
            let so = r.score_only.as_ref().map(|o| o.is_some());
            decide(if r.algo == Algo::Fuzzy { "fuzzy_match" } else { "fuzzy_match_greedy" }, so);
            let wi = r.with_idx.as_ref().map(|o| o.0.is_some());
            decide(if r.algo == Algo::Fuzzy { "fuzzy_indices" } else { "fuzzy_indices_greedy" }, wi);
        }
        out
    }
}
