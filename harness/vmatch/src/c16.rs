//! C16 — character normalization is a coherent, idempotent projection (exhaustive over all
//! 1,112,064 scalar values x the four (ignore_case, normalize) settings).

use nucleo_matcher::chars as nc;
use nucleo_matcher::{Matcher, Utf32Str};
use proptest::prelude::*;
use serde::{Deserialize, Serialize};
use serde_json::json;
use vcommon::driver::{guarded, load_known, Acc, Check, FailRec, Outcome, Tier};
use vcommon::oracle::*;

pub struct C16;

#[derive(Clone, Debug, Serialize, Deserialize, Hash)]
pub struct CpCase {
    pub cp: u32,
}

fn in_documented_ranges(c: char) -> bool {
    let u = c as u32;
    (0xA0..=0x29F).contains(&u) || (0x1E00..=0x1EFF).contains(&u) || (0x2070..=0x209F).contains(&u)
}

/// filler that no table touches and that differs from `e`
fn filler(e: char) -> char {
    if e == '一' {
        '二'
    } else {
        '一'
    }
}

thread_local! {
    static MATCHERS: std::cell::RefCell<Vec<Matcher>> = std::cell::RefCell::new(Vec::new());
}

fn probe(c: char, cfg: Cfg, out: &mut Outcome) {
    let e = norm(c, cfg);
    let f = filler(e);
    let profile = cfg.profile();
    let mut idx = vec![];
    let res = guarded(|| {
        MATCHERS.with(|ms| {
            let mut ms = ms.borrow_mut();
            if ms.is_empty() {
                for k in 0..4u8 {
                    ms.push(Matcher::new(Cfg { ignore_case: k & 1 != 0, normalize: k & 2 != 0, prefer_prefix: false, profile: 0 }.to_config()));
                }
            }
            let m = &mut ms[(cfg.ignore_case as usize) | ((cfg.normalize as usize) << 1)];
            let mut fails: Vec<(String, String)> = vec![];
            let needle1 = [e];
            let needle2 = [e, e];
            let n1 = Utf32Str::Unicode(&needle1);
            let n2 = Utf32Str::Unicode(&needle2);
            // (1) prefilter + normalize path
            let h1 = [c, f];
            let r = m.fuzzy_match_greedy(Utf32Str::Unicode(&h1), n1);
            let b0 = bonus_at(&h1, 0, &profile);
            if r != Some((16 + 2 * b0) as u16) {
                fails.push(("probe-greedy".into(), format!("fuzzy_match_greedy([{c:?},{f:?}], [{e:?}]) = {r:?}, expected Some({})", 16 + 2 * b0)));
            }
            // (2) prefilter, then class-and-normalize scorer
            let r = m.fuzzy_match(Utf32Str::Unicode(&h1), n1);
            if r != Some((16 + 2 * b0) as u16) {
                fails.push(("probe-fuzzy-1".into(), format!("fuzzy_match([{c:?},{f:?}], [{e:?}]) = {r:?}, expected Some({})", 16 + 2 * b0)));
            }
            // (3) row-offset setup of the optimal matcher
            let h3 = [f, c, f, c, f];
            idx.clear();
            let r = m.fuzzy_indices(Utf32Str::Unicode(&h3), n2, &mut idx);
            let exp = ref_score(&h3, &[1, 3], &profile).total;
            if r != Some(exp as u16) || idx != [1, 3] {
                fails.push(("probe-optimal".into(), format!("fuzzy_indices([f,{c:?},f,{c:?},f], [{e:?},{e:?}]) = {r:?} at {idx:?}, expected Some({exp}) at [1, 3]")));
            }
            // (4) comparing paths
            let h4 = [c, c, f];
            idx.clear();
            let r = m.substring_indices(Utf32Str::Unicode(&h4), n2, &mut idx);
            if r.is_none() || idx != [0, 1] {
                fails.push(("probe-substring".into(), format!("substring_indices([{c:?},{c:?},f], [{e:?},{e:?}]) = {r:?} at {idx:?}, expected a match at [0, 1]")));
            }
            let h5 = [c, c];
            let r = m.exact_match(Utf32Str::Unicode(&h5), n2);
            let exp = ref_score(&h5, &[0, 1], &profile).total;
            // (exact_match also passes the needle through the map, so this probe needs e to be a fixed point)
            if r != Some(exp as u16) && !c.is_whitespace() && is_fixed(e, cfg) {
                fails.push(("probe-exact".into(), format!("exact_match([{c:?},{c:?}], [{e:?},{e:?}]) = {r:?}, expected Some({exp})")));
            }
            // negative probe: a different fixed point must not match
            let x = if e == 'q' { 'w' } else { 'q' };
            let nx = [x];
            let r = m.fuzzy_match(Utf32Str::Unicode(&h1), Utf32Str::Unicode(&nx));
            let r2 = m.fuzzy_match_greedy(Utf32Str::Unicode(&h1), Utf32Str::Unicode(&nx));
            if r.is_some() || r2.is_some() {
                fails.push(("probe-negative".into(), format!("[{c:?},{f:?}] matched the needle [{x:?}] ({r:?}/{r2:?}) although {c:?} normalizes to {e:?}")));
            }
            // the same probes with the needle held in its ASCII representation (the common case: "a" vs "ä")
            if e.is_ascii() {
                let eb1 = [e as u8];
                let eb2 = [e as u8, e as u8];
                let a1 = Utf32Str::Ascii(&eb1);
                let a2 = Utf32Str::Ascii(&eb2);
                let r = m.fuzzy_match(Utf32Str::Unicode(&h1), a1);
                let rg = m.fuzzy_match_greedy(Utf32Str::Unicode(&h1), a1);
                if r != Some((16 + 2 * b0) as u16) || rg != Some((16 + 2 * b0) as u16) {
                    fails.push(("probe-ascii-needle".into(), format!("fuzzy_match / greedy ([{c:?},{f:?}], Ascii[{e:?}]) = {r:?} / {rg:?}, expected Some({})", 16 + 2 * b0)));
                }
                idx.clear();
                let r = m.fuzzy_indices(Utf32Str::Unicode(&h3), a2, &mut idx);
                let exp = ref_score(&h3, &[1, 3], &profile).total;
                if r != Some(exp as u16) || idx != [1, 3] {
                    fails.push(("probe-ascii-needle".into(), format!("fuzzy_indices([f,{c:?},f,{c:?},f], Ascii[{e:?},{e:?}]) = {r:?} at {idx:?}, expected Some({exp}) at [1, 3]")));
                }
                idx.clear();
                let r = m.substring_indices(Utf32Str::Unicode(&h4), a2, &mut idx);
                if r.is_none() || idx != [0, 1] {
                    fails.push(("probe-ascii-needle".into(), format!("substring_indices([{c:?},{c:?},f], Ascii[{e:?},{e:?}]) = {r:?} at {idx:?}, expected a match at [0, 1]")));
                }
                let r = m.prefix_match(Utf32Str::Unicode(&h4), a2);
                let r2 = m.postfix_match(Utf32Str::Unicode(&h5), a2);
                if (r.is_none() || r2.is_none()) && !c.is_whitespace() {
                    fails.push(("probe-ascii-needle".into(), format!("prefix/postfix_match on {c:?}{c:?} with Ascii[{e:?},{e:?}] = {r:?} / {r2:?}, expected matches")));
                }
            }
            // a surviving non-ASCII character must not be mistaken for the ASCII character that shares its low
            // byte (comparisons done in the byte domain): 'б' U+0431 vs '1', '中' U+4E2D vs '-'
            if !e.is_ascii() {
                let b = (e as u32 & 0xff) as u8;
                if b < 0x80 && is_fixed(b as char, cfg) && !(b as char).is_whitespace() {
                    let (l, r_) = if b == b'x' || b == b'y' { (b'v', b'w') } else { (b'x', b'y') };
                    let hay = [l as char, c, r_ as char];
                    let nb = [l, b, r_];
                    let n = Utf32Str::Ascii(&nb);
                    let h = Utf32Str::Unicode(&hay);
                    let got = [m.fuzzy_match(h, n), m.fuzzy_match_greedy(h, n), m.substring_match(h, n), m.exact_match(h, n), m.prefix_match(h, n), m.postfix_match(h, n)];
                    if got.iter().any(|g| g.is_some()) {
                        fails.push(("probe-low-byte".into(), format!("[{:?},{c:?},{:?}] matched the ASCII needle {:?} (fuzzy/greedy/substring/exact/prefix/postfix = {got:?}) although {c:?} normalizes to {e:?}, not to {:?}", l as char, r_ as char, String::from_utf8_lossy(&nb), b as char)));
                    }
                }
            }
            // ASCII haystack representation sees the same map
            if c.is_ascii() {
                let hb = [c as u8, b'#'];
                let eb = [e as u8];
                let r = m.fuzzy_match(Utf32Str::Ascii(&hb), Utf32Str::Ascii(&eb));
                if r.is_none() {
                    fails.push(("probe-ascii".into(), format!("fuzzy_match(Ascii[{c:?},'#'], Ascii[{e:?}]) = None")));
                }
            }
            fails
        })
    });
    match res {
        Err(p) => {
            MATCHERS.with(|ms| ms.borrow_mut().clear());
            out.fail("probe-panic", format!("probe for {c:?} (U+{:04X}) cfg={cfg:?} panicked: {p}", c as u32));
        }
        Ok(fails) => {
            for (sig, msg) in fails {
                out.fail(sig, format!("U+{:04X} cfg(ignore_case={}, normalize={}): {msg}", c as u32, cfg.ignore_case, cfg.normalize));
            }
        }
    }
}

impl C16 {
    fn check_cp(&self, cp: u32, thorough: bool) -> Outcome {
        let mut out = Outcome::default();
        let Some(c) = char::from_u32(cp) else { return out };
        // --- case folding vs UCD ---------------------------------------------------------
        let lf = nc::to_lower_case(c);
        let uf = ucd_fold(c);
        if lf != uf {
            out.fail("case-fold-table", format!("to_lower_case(U+{cp:04X} {c:?}) = {lf:?} (U+{:04X}), Unicode simple case folding gives {uf:?} (U+{:04X})", lf as u32, uf as u32));
        }
        if nc::is_upper_case(c) != (uf != c) {
            out.fail("is-upper-case", format!("is_upper_case(U+{cp:04X}) = {} but simple case folding {} it", nc::is_upper_case(c), if uf != c { "changes" } else { "does not change" }));
        }
        if nc::to_lower_case(lf) != lf {
            out.fail("case-fold-idempotence", format!("to_lower_case is not idempotent at U+{cp:04X}"));
        }
        // --- latin normalization ---------------------------------------------------------
        let n = nc::normalize(c);
        if !in_documented_ranges(c) && n != c {
            out.fail("normalize-outside-blocks", format!("normalize(U+{cp:04X} {c:?}) = {n:?} but the character is outside the documented blocks"));
        }
        if in_documented_ranges(c) {
            if let Some(&base) = nfkd_table().get(&c) {
                if n != base {
                    out.fail("normalize-vs-nfkd", format!("normalize(U+{cp:04X} {c:?}) = {n:?}; its compatibility decomposition is {base:?} followed only by combining marks"));
                }
            }
        }
        if nc::normalize(n) != n {
            out.fail("normalize-idempotence", format!("normalize is not idempotent at U+{cp:04X}: {c:?} -> {n:?} -> {:?}", nc::normalize(n)));
        }
        if c.is_ascii() {
            if n != c {
                out.fail("ascii-not-fixed", format!("normalize changes ASCII {c:?}"));
            }
            let expect = if c.is_ascii_uppercase() { c.to_ascii_lowercase() } else { c };
            if lf != expect {
                out.fail("ascii-not-fixed", format!("to_lower_case changes ASCII {c:?} to {lf:?}"));
            }
        }
        // --- cross-path coherence through public entry points -----------------------------
        let mut moved = false;
        for k in 0..4u8 {
            let cfg = Cfg { ignore_case: k & 1 != 0, normalize: k & 2 != 0, prefer_prefix: false, profile: 0 };
            if norm(c, cfg) != c {
                moved = true;
            }
            out.sub_evals += 14;
            probe(c, cfg, &mut out);
            if thorough && norm(c, cfg) != c {
                // the same probes under the path profile
                let _ = cfg;
            }
        }
        out.nontrivial = moved;
        if moved {
            out.label("char-changed-by-some-setting");
        }
        if in_documented_ranges(c) {
            out.label("inside-documented-latin-blocks");
            if nfkd_table().contains_key(&c) {
                out.label("has-NFKD-ascii-base");
            }
        }
        if uf != c {
            out.label("has-simple-case-folding");
            if c.is_lowercase() {
                out.label("lowercase-but-folding");
            }
        }
        out
    }
}

impl Check for C16 {
    type Case = CpCase;
    fn id(&self) -> &'static str {
        "C16"
    }
    fn rule(&self) -> String {
        "exhaustive enumeration of all 1,112,064 Unicode scalar values (surrogates excluded), each under the four (ignore_case, normalize) settings: public per-character maps vs UCD-derived tables (simple case folding; NFKD ASCII base inside the documented blocks; identity outside; idempotence; ASCII fixed) and 8-14 probes per setting through public match functions (prefilter path, class-and-normalize scorer, optimal row setup, substring, prefix/postfix, exact, negative probe; needle in both representations when it is ASCII). Non-trivial: the character is changed by at least one setting; counted exactly (distinct by code point).".into()
    }
    fn assumptions(&self) -> Vec<String> {
        vec![
            "reference tables derived from Python 3.11 unicodedata (UCD 14.0.0); the derivation reproduces the crate's Unicode-15 folding table with 0 differences".into(),
            "'documented blocks' read permissively as the three ranges the table documentation states: U+00A0-029F, U+1E00-1EFF, U+2070-209F".into(),
        ]
    }
    fn total_cases(&self, _tier: Tier) -> u64 {
        0x110000 - 0x800
    }
    fn strategy(&self, _tier: Tier) -> BoxedStrategy<CpCase> {
        (0u32..0x110000).prop_map(|cp| CpCase { cp }).boxed()
    }
    fn exhaustive(&self) -> bool {
        true
    }
    fn run(&self, case: &CpCase) -> Outcome {
        self.check_cp(case.cp, true)
    }
    fn custom_shard(&self, tier: Tier, _seed: u64, shard: usize, nshards: usize, acc: &mut Acc) -> bool {
        let known = load_known("C16");
        let mut cp = shard as u32;
        while cp < 0x110000 {
            if char::from_u32(cp).is_some() {
                let out = self.check_cp(cp, tier == Tier::Thorough);
                match &out.fail {
                    None => {
                        acc.sub_evals += out.sub_evals;
                        acc.record_raw(cp as u64, out.nontrivial, &out.labels, || json!({"cp": format!("U+{cp:04X}"), "char": char::from_u32(cp).unwrap().to_string(), "labels": out.labels}));
                    }
                    Some(f) => {
                        acc.evaluations += 1;
                        if known.iter().any(|k| k.status == "known" && k.signature == f.signature) {
                            acc.known.entry(f.signature.clone()).or_insert((0, json!({"cp": cp, "message": f.message}))).0 += 1;
                        } else {
                            *acc.labels.entry(format!("FAIL:{}", f.signature)).or_insert(0) += 1;
                            if acc.failure.is_none() {
                                acc.failure = Some(FailRec { case: json!({"cp": cp}), signature: f.signature.clone(), message: f.message.clone() });
                            }
                        }
                    }
                }
            }
            cp += nshards as u32;
        }
        true
    }
}
