//! C15 — pattern scores compose as a conjunction of atoms with negation.

use crate::c14::{case_of, kind_of, norm_of, observe};
use nucleo::pattern::MultiPattern;
use nucleo_matcher::pattern::{Atom, AtomKind, Pattern};
use nucleo_matcher::{Matcher, Utf32Str, Utf32String};
use proptest::prelude::*;
use serde::{Deserialize, Serialize};
use vcommon::driver::{guarded, Check, Outcome, Tier};
use vcommon::gen::{self, map_idx, text_from};
use vcommon::oracle::Cfg;

pub struct C15;

#[derive(Clone, Debug, Serialize, Deserialize, Hash)]
pub struct AtomSpec {
    pub text: String,
    pub kind: u8,
    pub negative: bool,
    pub case: u8,
    pub norm: u8,
}

#[derive(Clone, Debug, Serialize, Deserialize, Hash)]
pub struct CCase {
    pub atoms: Vec<AtomSpec>,
    pub hay: String,
    pub cfg: Cfg,
    pub prior: Vec<u32>,
    /// items for match_list (indices into a small set of haystack variants -> duplicates)
    pub items: Vec<String>,
    /// multi-column: (pattern text, haystack) per column
    pub cols: Vec<(String, String)>,
    pub perm: Vec<u16>,
    /// earlier reparse steps (column selector, text) on the same MultiPattern, before `cols` is applied
    #[serde(default)]
    pub col_hist: Vec<(u8, String)>,
}

fn atom_alone(a: &Atom, hay: Utf32Str<'_>, cfg: Cfg) -> (bool, u16, Vec<u32>) {
    // evaluated directly through the matcher functions on a fresh matcher (not through Atom::score)
    let o = observe(a);
    let mut c = cfg;
    c.ignore_case = o.ignore_case;
    c.normalize = o.normalize;
    let mut m = Matcher::new(c.to_config());
    let n = a.needle_text();
    let mut idx = vec![];
    let r = match a.kind {
        AtomKind::Fuzzy => m.fuzzy_indices(hay, n, &mut idx),
        AtomKind::Substring => m.substring_indices(hay, n, &mut idx),
        AtomKind::Prefix => m.prefix_indices(hay, n, &mut idx),
        AtomKind::Postfix => m.postfix_indices(hay, n, &mut idx),
        AtomKind::Exact => m.exact_indices(hay, n, &mut idx),
        _ => None,
    };
    (r.is_some(), r.unwrap_or(0), idx)
}

fn build_atom(s: &AtomSpec) -> Atom {
    let mut a = Atom::new(&s.text, case_of(s.case), norm_of(s.norm), kind_of(s.kind), false);
    a.negative = s.negative;
    a
}

fn expected(atoms: &[Atom], hay: Utf32Str<'_>, cfg: Cfg) -> Option<(u32, Vec<u32>)> {
    let mut score = 0u32;
    let mut idx = vec![];
    for a in atoms {
        let (m, s, i) = atom_alone(a, hay, cfg);
        if a.negative {
            if m {
                return None;
            }
        } else {
            if !m {
                return None;
            }
            score += s as u32;
            idx.extend(i);
        }
    }
    Some((score, idx))
}

impl Check for C15 {
    type Case = CCase;
    fn id(&self) -> &'static str {
        "C15"
    }
    fn rule(&self) -> String {
        "1-5 atoms of every kind/polarity/CaseMatching/Normalization built through Atom::new (now and then with an empty needle) (texts = substrings / subsequences of the haystack, case variants, or independent), haystacks from small palettes (ASCII and non-ASCII), all matcher configs; each atom is evaluated alone on a fresh matcher directly through the matcher functions and the results are composed by the stated rule (conjunction, negation, sum, index concatenation, prior content kept); Pattern::score / Pattern::indices / permuted atom order on a shared matcher / Atom::score / Pattern::clone_from onto a pattern with other settings at the same atom positions and Atom::clone_from / match_list (fed by a lazy iterator that itself calls match_list) on 0-84 items drawn from at most five distinct strings (many score ties; stable descending sort; a quarter of the lists contain items with CR LF inside) / MultiPattern over 1-3 columns compared, after 0-3 earlier reparse steps on the same object (columns set and cleared again), together with is_empty(). 6% of the cases use a line of 700-1900 chars with atoms that are long pieces of it (pattern totals above 65535); ten such cases are fixed templates. Non-trivial: >= 2 atoms with a negative one or two different case/normalization settings, on a haystack at least one atom matches. Distinct by case hash.".into()
    }
    fn assumptions(&self) -> Vec<String> {
        vec!["per-atom match decisions and scores are C01-C05's business; here only the composition is judged".into()]
    }
    fn total_cases(&self, tier: Tier) -> u64 {
        match tier {
            Tier::Quick => 80_000,
            Tier::Thorough => 5_000_000,
        }
    }
    fn templates(&self, _tier: Tier) -> Vec<CCase> {
        // long lines with several long atoms: the pattern total exceeds 16 bits although every atom score fits
        let mut v = vec![];
        let line: String = "abcdefghij".chars().cycle().take(1600).collect();
        for (k1, k2) in [(0u8, 0u8), (0, 1), (1, 1), (2, 0), (1, 3)] {
            for cfg_sel in 0..2u8 {
                let cfg = Cfg { ignore_case: cfg_sel == 0, normalize: false, prefer_prefix: false, profile: 0 };
                let a1 = AtomSpec { text: if k1 == 2 { line[..1400].to_string() } else { line[100..1500].to_string() }, kind: k1, negative: false, case: 0, norm: 0 };
                let a2 = AtomSpec { text: if k2 == 3 { line[200..].to_string() } else { line[50..1450].to_string() }, kind: k2, negative: false, case: 1, norm: 0 };
                let a3 = AtomSpec { text: "zz".into(), kind: 0, negative: true, case: 0, norm: 0 };
                v.push(CCase { atoms: vec![a1, a2, a3], hay: line.clone(), cfg, prior: vec![9], items: vec![line.clone(), "abc".into(), line.clone()], cols: vec![("a".into(), "abc".into())], perm: vec![1, 2, 3, 4, 5], col_hist: vec![] });
            }
        }
        // a column that is cleared while another one keeps its atoms
        v.push(CCase { atoms: vec![AtomSpec { text: "a".into(), kind: 0, negative: false, case: 0, norm: 0 }], hay: "abc".into(), cfg: Cfg { ignore_case: true, normalize: true, prefer_prefix: false, profile: 0 }, prior: vec![], items: vec![], cols: vec![("x".into(), "abc".into()), ("".into(), "abc".into())], perm: vec![0; 5], col_hist: vec![(1, "b".into()), (0, "a".into())] });
        v.push(CCase { atoms: vec![AtomSpec { text: "a".into(), kind: 0, negative: false, case: 0, norm: 0 }], hay: "abc".into(), cfg: Cfg { ignore_case: true, normalize: true, prefer_prefix: false, profile: 0 }, prior: vec![], items: vec![], cols: vec![("".into(), "abc".into()), ("b".into(), "abc".into()), ("".into(), "q".into())], perm: vec![0; 5], col_hist: vec![(0, "zz".into()), (2, "q".into()), (0, "".into())] });
        v
    }
    fn strategy(&self, _tier: Tier) -> BoxedStrategy<CCase> {
        let pal = prop_oneof![60 => gen::palette(gen::PaletteKind::Ascii), 40 => gen::palette(gen::PaletteKind::Mixed)];
        // atom raw: (mode, selectors, kind, negative, case, norm, flip-case)
        let atom_raw = (0u8..4, proptest::collection::vec(any::<u16>(), 1..=4), 0u8..5, proptest::bool::weighted(0.3), 0u8..3, 0u8..2, any::<bool>());
        (pal, proptest::collection::vec(any::<u16>(), 1..=14), proptest::collection::vec(atom_raw, 1..=5), gen::any_cfg(), proptest::collection::vec(any::<u32>(), 0..=3), proptest::collection::vec(proptest::collection::vec(any::<u16>(), 0..=8), 0..=12), proptest::collection::vec((proptest::collection::vec(any::<u16>(), 0..=5), proptest::collection::vec(any::<u16>(), 0..=8), any::<bool>()), 1..=3), proptest::collection::vec(any::<u16>(), 5), (prop_oneof![94 => Just(0usize), 6 => 700usize..1900], proptest::collection::vec((any::<u8>(), proptest::collection::vec(any::<u16>(), 0..=3)), 0..=3)))
            .prop_map(|(pal, hs, atoms_raw, cfg, prior, items_raw, cols_raw, perm, (tile, hist_raw))| {
                // keep whitespace out of the palette-derived texts? no: Atom::new takes any text
                let mut hay = text_from(&pal, &hs);
                if tile > 0 {
                    // long line: atoms that are long pieces of it score tens of thousands each
                    hay = hay.iter().copied().cycle().take(tile).collect();
                }
                let n = hay.len();
                let atoms = atoms_raw
                    .into_iter()
                    .map(|(mode, sels, kind, negative, case, norm, flip)| {
                        let mut t: Vec<char> = match mode {
                            0 if tile == 0 => {
                                let mut pos: Vec<usize> = sels.iter().map(|&s| map_idx(s, n)).collect();
                                pos.sort();
                                pos.dedup();
                                pos.into_iter().map(|p| hay[p]).collect()
                            }
                            0 | 1 if tile > 0 => {
                                let st = map_idx(sels[0], n / 8 + 1);
                                let len = n / 2 + map_idx(*sels.last().unwrap(), n / 2 - st);
                                hay[st..st + len].to_vec()
                            }
                            2 if tile > 0 => hay[n - (n / 2 + map_idx(sels[0], n / 2))..].to_vec(),
                            1 => {
                                let st = map_idx(sels[0], n);
                                hay[st..(st + sels.len()).min(n)].to_vec()
                            }
                            2 => hay[n - sels.len().min(n)..].to_vec(),
                            _ => sels.iter().map(|&s| pal[map_idx(s, pal.len())]).collect(),
                        };
                        if flip {
                            t = t.into_iter().map(|c| if c.is_lowercase() { c.to_uppercase().next().unwrap() } else { c.to_lowercase().next().unwrap() }).collect();
                        }
                        // now and then an empty needle (only reachable through the public `atoms` field)
                        if sels.len() == 4 && sels[3] % 16 == 0 {
                            t.clear();
                        }
                        AtomSpec { text: t.into_iter().collect(), kind, negative, case, norm }
                    })
                    .collect();
                // few distinct strings, many repetitions: ties in score are the rule, and lists longer
                // than 20 defeat sorts that are only accidentally stable on short inputs
                let mut bases: Vec<String> = items_raw.iter().take(3).map(|s| text_from(&pal, s).into_iter().collect()).collect();
                bases.push(hay.iter().collect());
                let mut rev: Vec<char> = hay.clone();
                rev.reverse();
                bases.push(rev.into_iter().collect());
                // all-ASCII (and other) items with a Windows line break inside
                if items_raw.len() % 4 == 1 {
                    let mut b: Vec<char> = hay.clone();
                    let at = b.len() / 2;
                    b.splice(at..at, ['\r', '\n']);
                    bases.push(b.into_iter().collect());
                    let k = bases.len() - 2;
                    let mut c: Vec<char> = bases[0].chars().collect();
                    let at = c.len().min(1);
                    c.splice(at..at, ['\r', '\n']);
                    bases[k] = c.into_iter().collect();
                }
                let long = items_raw.len() % 3 == 0;
                let reps = if long { 7 } else { 1 };
                let mut items: Vec<String> = vec![];
                for r in 0..reps {
                    for (k, s) in items_raw.iter().enumerate() {
                        let sel = s.first().copied().unwrap_or(0) as usize + r * 3 + k;
                        items.push(bases[sel % bases.len()].clone());
                    }
                }
                let cols = cols_raw
                    .into_iter()
                    .map(|(ps, hs, space)| {
                        let mut p: Vec<char> = text_from(&pal, &ps).into_iter().filter(|c| !c.is_whitespace()).collect();
                        if space && p.len() >= 2 {
                            p.insert(p.len() / 2, ' ');
                        }
                        (p.into_iter().collect::<String>(), text_from(&pal, &hs).into_iter().collect::<String>())
                    })
                    .collect();
                let col_hist = hist_raw.into_iter().map(|(c, ps)| (c, text_from(&pal, &ps).into_iter().filter(|c| !c.is_whitespace()).collect::<String>())).collect();
                CCase { atoms, hay: hay.into_iter().collect(), cfg, prior, items, cols, perm, col_hist }
            })
            .boxed()
    }
    fn run(&self, case: &CCase) -> Outcome {
        let mut out = Outcome::default();
        let cfg = case.cfg;
        let r = guarded(|| {
            let mut fails: Vec<(String, String)> = vec![];
            let mut labels: Vec<&'static str> = vec![];
            // (atoms with an empty needle cannot come out of the parser, but `atoms` is a public field: the inner
            // match of an empty needle always succeeds, so a negated one rejects everything)
            let atoms: Vec<Atom> = case.atoms.iter().map(build_atom).collect();
            let mut buf = vec![];
            let hay = Utf32Str::new(&case.hay, &mut buf);
            let exp = expected(&atoms, hay, cfg);
            let mut pattern = Pattern::default();
            pattern.atoms = atoms.clone();
            let mut shared = Matcher::new(cfg.to_config());
            let ctx = format!("atoms={:?} haystack={:?} cfg={cfg:?}", case.atoms, case.hay);
            // score
            let got = pattern.score(hay, &mut shared);
            if got != exp.as_ref().map(|e| e.0) {
                fails.push(("pattern-score".into(), format!("Pattern::score = {got:?}, composition of the atoms gives {:?}; {ctx}", exp.as_ref().map(|e| e.0))));
            }
            // indices with prior content
            let mut v = case.prior.clone();
            let got_i = pattern.indices(hay, &mut shared, &mut v);
            match (&exp, got_i) {
                (None, None) => {
                    // a failed pattern may have appended indices of earlier atoms: the statement only
                    // fixes the successful case; prior content must survive in any case
                    if v.len() < case.prior.len() || v[..case.prior.len()] != case.prior[..] {
                        fails.push(("indices-prior".into(), format!("prior content damaged on a failed match; {ctx}")));
                    }
                }
                (Some((s, idx)), Some(g)) => {
                    let mut want = case.prior.clone();
                    want.extend(idx);
                    if g != *s || v != want {
                        fails.push(("pattern-indices".into(), format!("Pattern::indices = {g} {v:?}, expected {s} {want:?}; {ctx}")));
                    }
                }
                (e, g) => fails.push(("pattern-indices-decision".into(), format!("Pattern::indices = {g:?}, expected {:?}; {ctx}", e.as_ref().map(|e| e.0)))),
            }
            // clone_from onto a pattern whose atoms have the same texts but other settings at the same positions
            {
                let mut old = Pattern::default();
                old.atoms = case
                    .atoms
                    .iter()
                    .skip(case.perm[0] as usize % 2)
                    .map(|s| {
                        let mut t = s.clone();
                        t.case = (t.case + 1) % 3;
                        t.norm = 1 - t.norm % 2;
                        t.negative = !t.negative;
                        build_atom(&t)
                    })
                    .collect();
                old.clone_from(&pattern);
                let got_c = old.score(hay, &mut shared);
                if old.atoms != pattern.atoms || got_c != exp.as_ref().map(|e| e.0) {
                    fails.push(("clone-from".into(), format!("a pattern overwritten by Pattern::clone_from differs from its source: atoms {:?} vs {:?}, score {got_c:?} vs {:?}; {ctx}", old.atoms, pattern.atoms, exp.as_ref().map(|e| e.0))));
                }
                if let (Some(src), Some(other)) = (atoms.first(), atoms.last()) {
                    let mut a = other.clone();
                    a.clone_from(src);
                    let b = src.clone();
                    if a != *src || b != *src || a.score(hay, &mut shared) != src.score(hay, &mut shared) {
                        fails.push(("clone-from".into(), format!("Atom::clone / clone_from: {a:?} / {b:?} differ from the source {src:?}; {ctx}")));
                    }
                }
            }
            // permuted evaluation order on the shared matcher
            let mut permuted = atoms.clone();
            for (i, &p) in case.perm.iter().enumerate() {
                if permuted.len() > 1 {
                    let a = i % permuted.len();
                    let b = map_idx(p, permuted.len());
                    permuted.swap(a, b);
                }
            }
            let mut pp = Pattern::default();
            pp.atoms = permuted;
            let got_p = pp.score(hay, &mut shared);
            if got_p != exp.as_ref().map(|e| e.0) {
                fails.push(("order-dependence".into(), format!("the same atoms in another order score {got_p:?} instead of {:?}; {ctx}", exp.as_ref().map(|e| e.0))));
            }
            // single atoms through Atom::score / Atom::indices on the shared matcher
            for a in &atoms {
                let (m, s, idx) = atom_alone(a, hay, cfg);
                let want = if a.negative { (!m).then_some(0u16) } else { m.then_some(s) };
                let g = a.score(hay, &mut shared);
                let mut v = vec![7u32];
                let g2 = a.indices(hay, &mut shared, &mut v);
                let want_v: Vec<u32> = if a.negative || !m { vec![7] } else { std::iter::once(7).chain(idx.iter().copied()).collect() };
                if g != want || g2 != want || v != want_v {
                    fails.push(("atom-score".into(), format!("Atom {a:?}: score {g:?} indices {g2:?} {v:?}, expected {want:?} {want_v:?}; {ctx}")));
                }
            }
            // empty pattern
            let empty = Pattern::default();
            if empty.score(hay, &mut shared) != Some(0) || empty.indices(hay, &mut shared, &mut vec![]) != Some(0) {
                fails.push(("empty-pattern".into(), format!("empty pattern does not match {:?} with score 0", case.hay)));
            }
            // match_list
            let mut want: Vec<(usize, u32)> = vec![];
            for (k, it) in case.items.iter().enumerate() {
                let mut b = vec![];
                if let Some((s, _)) = expected(&atoms, Utf32Str::new(it, &mut b), cfg) {
                    want.push((k, s));
                }
            }
            want.sort_by_key(|&(_, s)| std::cmp::Reverse(s)); // stable
            let tagged: Vec<Tagged> = case.items.iter().enumerate().map(|(k, s)| Tagged(k, s.clone())).collect();
            // the item iterator is lazy and itself uses match_list (a directory walk that filters its entries)
            let mut inner_matcher = Matcher::new(cfg.to_config());
            let inner_pattern = pattern.clone();
            let lazy = tagged.into_iter().map(|t| {
                let _ = inner_pattern.match_list(["nested", "call"], &mut inner_matcher);
                if let Some(a) = inner_pattern.atoms.first() {
                    let _ = a.match_list(["nested"], &mut inner_matcher);
                }
                t
            });
            let got_l: Vec<(usize, u32)> = pattern.match_list(lazy, &mut shared).into_iter().map(|(t, s)| (t.0, s)).collect();
            let want_l: Vec<(usize, u32)> = if atoms.is_empty() { case.items.iter().enumerate().map(|(k, _)| (k, 0)).collect() } else { want };
            if got_l != want_l {
                fails.push(("match-list".into(), format!("match_list over {:?} = {got_l:?} (item index, score), expected {want_l:?}; {ctx}", case.items)));
            }
            if let Some(a) = atoms.first().filter(|a| !a.needle_text().is_empty()) {
                let mut w: Vec<(usize, u16)> = vec![];
                for (k, it) in case.items.iter().enumerate() {
                    let mut b = vec![];
                    let (m, s, _) = atom_alone(a, Utf32Str::new(it, &mut b), cfg);
                    if a.negative {
                        if !m {
                            w.push((k, 0));
                        }
                    } else if m {
                        w.push((k, s));
                    }
                }
                w.sort_by_key(|&(_, s)| std::cmp::Reverse(s));
                let tagged: Vec<Tagged> = case.items.iter().enumerate().map(|(k, s)| Tagged(k, s.clone())).collect();
                let g: Vec<(usize, u16)> = a.match_list(tagged, &mut shared).into_iter().map(|(t, s)| (t.0, s)).collect();
                if g != w {
                    fails.push(("atom-match-list".into(), format!("Atom::match_list = {g:?}, expected {w:?}; {ctx}")));
                }
            }
            // multi-column
            let ncols = case.cols.len();
            let mut mp = MultiPattern::new(ncols);
            for (c, t) in &case.col_hist {
                mp.reparse(*c as usize % ncols.max(1), t, case_of(case.atoms[0].case), norm_of(case.atoms[0].norm), false);
            }
            if !case.col_hist.is_empty() {
                labels.push("multi-column-reparse-history");
            }
            let mut all_empty = true;
            let mut col_expected: Option<u32> = Some(0);
            let mut hays: Vec<Utf32String> = vec![];
            for (k, (ptext, h)) in case.cols.iter().enumerate() {
                let cm = case_of(case.atoms[0].case);
                let nm = norm_of(case.atoms[0].norm);
                mp.reparse(k, ptext, cm, nm, false);
                let p = Pattern::parse(ptext, cm, nm);
                all_empty &= p.atoms.is_empty();
                let hu = Utf32String::from(h.as_str());
                let e = expected(&p.atoms, hu.slice(..), cfg);
                col_expected = match (col_expected, e) {
                    (Some(a), Some((b, _))) => Some(a + b),
                    _ => None,
                };
                hays.push(hu);
            }
            let got_m = mp.score(&hays, &mut shared);
            if got_m != col_expected {
                fails.push(("multi-column".into(), format!("MultiPattern::score over columns {:?} = {got_m:?}, conjunction of the columns gives {col_expected:?}; earlier reparse steps {:?}; cfg={cfg:?}", case.cols, case.col_hist)));
            }
            if mp.is_empty() != all_empty {
                fails.push(("multi-column-empty".into(), format!("MultiPattern::is_empty() = {} after reparse history {:?} and final columns {:?}, but all columns empty = {all_empty}", mp.is_empty(), case.col_hist, case.cols)));
            }
            if ncols > 1 {
                labels.push("multi-column");
            }
            if case.hay.chars().count() >= 700 {
                labels.push("long-line");
                if exp.as_ref().map_or(false, |e| e.0 > u16::MAX as u32) {
                    labels.push("pattern-score-above-65535");
                }
            }
            // labels / non-triviality
            let any_match = atoms.iter().any(|a| atom_alone(a, hay, cfg).0);
            let neg = atoms.iter().any(|a| a.negative);
            let settings: std::collections::HashSet<(bool, bool)> = atoms.iter().map(|a| {
                let o = observe(a);
                (o.ignore_case, o.normalize)
            }).collect();
            if neg {
                labels.push("has-negative-atom");
            }
            if settings.len() >= 2 {
                labels.push("mixed-case/normalization-settings");
            }
            if exp.is_some() {
                labels.push("pattern-matches");
            } else {
                labels.push("pattern-rejects");
            }
            if atoms.iter().any(|a| a.negative && !atom_alone(a, hay, cfg).0) {
                labels.push("negative-atom-passes");
            }
            let nt = atoms.len() >= 2 && (neg || settings.len() >= 2) && any_match;
            (fails, labels, nt)
        });
        match r {
            Err(p) => out.fail("panic", format!("panicked: {p}; case {case:?}")),
            Ok((fails, labels, nt)) => {
                out.nontrivial = nt;
                for l in labels {
                    out.label(l);
                }
                for (s, m) in fails {
                    out.fail(s, m);
                }
            }
        }
        out
    }
}

struct Tagged(usize, String);
impl AsRef<str> for Tagged {
    fn as_ref(&self) -> &str {
        &self.1
    }
}
