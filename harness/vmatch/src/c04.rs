//! C04 — fuzzy ranking quality: bounded by the true optimum, no worse than the recurrence.

use crate::mcase::*;
use nucleo_matcher::Matcher;
use proptest::prelude::*;
use vcommon::driver::{guarded, Check, Outcome, Tier};
use vcommon::gen::{self, derive_needle, text_from, NeedleMode};
use vcommon::oracle::*;

pub struct C04;

fn c04_palette() -> BoxedStrategy<Vec<char>> {
    let syms: Vec<char> = "abAB1 /-:_.éσΣ\t".chars().collect();
    prop_oneof![
        80 => proptest::collection::vec(proptest::sample::select(syms), 2..=4),
        20 => gen::any_palette(),
    ]
    .boxed()
}

fn needle_mode4() -> BoxedStrategy<NeedleMode> {
    prop_oneof![
        70 => proptest::collection::vec(any::<u16>(), 1..=5).prop_map(NeedleMode::Subseq),
        12 => (proptest::collection::vec(any::<u16>(), 1..=5), any::<u16>(), any::<u16>()).prop_map(|(v, a, b)| NeedleMode::SubseqMut(v, a, b)),
        18 => proptest::collection::vec(any::<u16>(), 1..=4).prop_map(NeedleMode::Independent),
    ]
    .boxed()
}

impl Check for C04 {
    type Case = MCase;
    fn id(&self) -> &'static str {
        "C04"
    }
    fn rule(&self) -> String {
        "small cases: haystack 2-14 chars (70%, brute force over all alignments cross-checked against the exact DP) or 15-64 chars (exact expanded-state DP), or (8%) a 3-10 character head and a 3-8 character tail over the same palette with 30-185 filler characters between them (needle taken from the tail; two groups of occurrences far apart), needle 1-5 chars, palettes of 2-4 symbols from {a b A B 1 space / - : _ . é σ Σ tab} (plus 20% general palettes), all three bonus profiles, ignore_case x normalize, every applicable representation pair; each case is evaluated with prefer_prefix off (sandwich: naive full-matrix recurrence <= fuzzy_match <= optimum over all alignments; one-char needle == optimum; fuzzy_match == fuzzy_indices) and on (off <= on <= off+8). Non-trivial: at least two alignments with different reference scores exist (enumeration capped at 5000 alignments). Distinct by case hash.".into()
    }
    fn assumptions(&self) -> Vec<String> {
        vec!["needle is normalized".into(), "the reference scheme (C03's scorer) defines the value of an alignment; the naive recurrence is written from the README description with ties preferring the gap branch".into()]
    }
    fn total_cases(&self, tier: Tier) -> u64 {
        match tier {
            Tier::Quick => 600_000,
            Tier::Thorough => 10_000_000,
        }
    }
    fn strategy(&self, _tier: Tier) -> BoxedStrategy<MCase> {
        let len = prop_oneof![70 => 2usize..=14, 30 => 15usize..=64];
        // 0.5% of the haystacks sit behind 65534..70000 filler characters no needle character matches
        let far = prop_oneof![199 => Just(0u32), 1 => proptest::sample::select(vec![65_534u32, 65_535, 65_536, 65_537, 70_000])];
        let dense = (c04_palette(), len, gen::any_cfg(), needle_mode4(), far)
            .prop_flat_map(|(pal, n, cfg, mode, far)| (Just(pal), proptest::collection::vec(any::<u16>(), n..=n), Just(cfg), Just(mode), Just(far)))
            .prop_map(|(pal, sels, mut cfg, mode, far)| {
                cfg.prefer_prefix = false;
                let hay = text_from(&pal, &sels);
                let needle = derive_needle(&hay, &pal, cfg, &mode);
                let hay = if far > 0 && hay.len() <= 24 { Text { head: vec![], motif: vec!['q'], tile_to: far, tail: hay } } else { Text::plain(hay) };
                MCase { hay, needle: Text::plain(needle), cfg, prior: vec![], cap_mode: 2 }
            });
        // two groups of occurrences a long way apart (C04-r5-1 stopped building matrix columns ~36 x needle length
        // behind the greedy match): a head and a tail over the same palette, 30..185 filler characters between
        // them, the needle taken from the tail; at most 200 characters, so the references see the whole haystack
        let split = (c04_palette(), 3usize..=10, 3usize..=8, 30u32..=185, proptest::sample::select(vec!['q', ' ', '/', '_', 'Q']), gen::any_cfg(), proptest::collection::vec(any::<u16>(), 1..=5))
            .prop_flat_map(|(pal, nh, nt, gap, fill, cfg, pick)| (Just(pal), proptest::collection::vec(any::<u16>(), nh..=nh), proptest::collection::vec(any::<u16>(), nt..=nt), Just(gap), Just(fill), Just(cfg), Just(pick)))
            .prop_map(|(pal, hsel, tsel, gap, fill, mut cfg, pick)| {
                cfg.prefer_prefix = false;
                let head = text_from(&pal, &hsel);
                let tail = text_from(&pal, &tsel);
                let needle = derive_needle(&tail, &pal, cfg, &NeedleMode::Subseq(pick));
                MCase { hay: Text { head, motif: vec![fill], tile_to: gap, tail }, needle: Text::plain(needle), cfg, prior: vec![], cap_mode: 2 }
            });
        prop_oneof![92 => dense, 8 => split].boxed()
    }
    fn run(&self, case: &MCase) -> Outcome {
        let mut out = Outcome::default();
        let mut cfg = case.cfg;
        cfg.prefer_prefix = false;
        let full = case.hay.expand();
        let needle = case.needle.expand();
        // a small haystack behind 64k+ filler characters that no needle character matches: every alignment lies
        // in the tail, so the references are evaluated on the tail (plus one filler character in front of it,
        // which fixes the bonus of the first tail character); the matcher sees the whole haystack
        let hay = if full.len() > 200 {
            let t = case.hay.tail.len();
            let ok = case.hay.head.is_empty() && case.hay.motif.len() == 1 && case.hay.tile_to >= 60_000 && t <= 60 && !needle.iter().any(|&c| c == norm(case.hay.motif[0], cfg));
            if !ok {
                out.label("skipped");
                return out;
            }
            out.label("far-offset");
            full[full.len() - t - 1..].to_vec()
        } else {
            full.clone()
        };
        if needle.is_empty() || !needle.iter().all(|&c| is_fixed(c, cfg)) {
            out.label("skipped");
            return out;
        }
        let nh = norm_vec(&hay, cfg);
        let profile = cfg.profile();
        let b = bonus_vec(&hay, &profile);
        let opt = exact_optimum(&nh, &b, &needle);
        let naive = naive_recurrence(&nh, &b, &needle);
        // oracle self-tests
        let cap = if hay.len() <= 14 { u64::MAX } else { 5000 };
        let brute = brute_optimum_capped(&nh, &b, &needle, cap);
        if let Some((bo, _, _, true)) = brute {
            if Some(bo) != opt {
                out.fail("oracle-self-test", format!("brute force optimum {bo} != exact DP {opt:?}; haystack={} needle={} cfg={cfg:?}", show(&hay), show(&needle)));
                return out;
            }
        }
        if brute.is_none() != opt.is_none() || naive.is_none() != opt.is_none() || naive > opt {
            out.fail("oracle-self-test", format!("references disagree: brute {brute:?} dp {opt:?} naive {naive:?}; haystack={} needle={} cfg={cfg:?}", show(&hay), show(&needle)));
            return out;
        }
        out.nontrivial = brute.map_or(false, |x| x.2 >= 2);
        if case.hay.tile_to > 0 && !case.hay.head.is_empty() {
            out.label("two-groups-far-apart");
        }
        if hay.len() <= 14 {
            out.label("brute-force-size");
        } else {
            out.label("dp-size");
        }
        if profile.delimiter > profile.white {
            out.label("path-profile");
        }
        if needle.len() == 1 {
            out.label("needle-len-1");
        }
        match (naive, opt) {
            (Some(a), Some(o)) if a < o => out.label("naive-recurrence-below-optimum"),
            _ => {}
        }

        let hs = Strs::new(full.clone());
        let ns = Strs::new(needle.clone());
        let mut scores_seen: Vec<Option<u16>> = vec![];
        for hr in hs.reprs() {
            for nr in ns.reprs() {
                out.sub_evals += 1;
                let pair = format!("{}x{}", hr.name(), nr.name());
                let ctx = || format!("({pair}) haystack={}{} needle={} cfg={cfg:?}", if full.len() > hay.len() { format!("{} filler characters + ", full.len() + 1 - hay.len()) } else { String::new() }, show(&hay[(full.len() > hay.len()) as usize..]), show(&needle));
                let run = |prefer: bool| {
                    guarded(|| {
                        let mut c = cfg;
                        c.prefer_prefix = prefer;
                        let mut m = Matcher::new(c.to_config());
                        let s = m.fuzzy_match(hs.get(hr), ns.get(nr));
                        let mut v = vec![];
                        let s2 = m.fuzzy_indices(hs.get(hr), ns.get(nr), &mut v);
                        (s, s2, v)
                    })
                };
                let (off, off2, off_idx) = match run(false) {
                    Ok(x) => x,
                    Err(p) => {
                        out.fail(format!("panic:{pair}"), format!("panicked: {p}; {}", ctx()));
                        continue;
                    }
                };
                scores_seen.push(off);
                if off != off2 {
                    out.fail("match-vs-indices", format!("fuzzy_match {off:?} != fuzzy_indices {off2:?}; {}", ctx()));
                    continue;
                }
                match (off, opt) {
                    (None, None) => continue,
                    (Some(s), None) => {
                        out.fail("match-without-alignment", format!("returned {s} but no alignment exists; {}", ctx()));
                        continue;
                    }
                    (None, Some(o)) => {
                        out.fail("missed-match", format!("returned None, optimum is {o}; {}", ctx()));
                        continue;
                    }
                    (Some(s), Some(o)) => {
                        let s = s as i64;
                        if s > o {
                            out.fail("above-optimum", format!("score {s} exceeds the maximum over all alignments {o}; {}", ctx()));
                        }
                        let nv = naive.unwrap();
                        if s < nv {
                            out.fail("below-naive-recurrence", format!("score {s} is lower than the naive full-matrix recurrence {nv} (optimum {o}); indices {off_idx:?}; {}", ctx()));
                        }
                        if s == nv {
                            out.label("equals-naive-recurrence");
                        }
                        if s < o {
                            out.label("below-optimum(allowed)");
                        }
                        if needle.len() == 1 && s != o {
                            out.fail("one-char-not-best", format!("one-character needle scored {s} at {off_idx:?}, the best-placed occurrence scores {o}; {}", ctx()));
                        }
                        // (d) prefix preference
                        match run(true) {
                            Err(p) => out.fail(format!("panic-prefer-prefix:{pair}"), format!("panicked with prefer_prefix: {p}; {}", ctx())),
                            Ok((on, on2, on_idx)) => {
                                if on != on2 {
                                    out.fail("match-vs-indices", format!("prefer_prefix: fuzzy_match {on:?} != fuzzy_indices {on2:?}; {}", ctx()));
                                } else if let Some(on) = on {
                                    let on = on as i64;
                                    if on < s || on > s + 8 {
                                        if on_idx != off_idx && s <= o && on <= o + 8 {
                                            out.fail("prefer-prefix-changes-alignment", format!("prefer_prefix off {s} at {off_idx:?}, on {on} at {on_idx:?} (optimum {o}): outside [off, off+8] because the option changes which alignment survives; {}", ctx()));
                                        } else {
                                            out.fail("prefer-prefix-bound", format!("prefer_prefix off {s} at {off_idx:?}, on {on} at {on_idx:?} (optimum {o}); {}", ctx()));
                                        }
                                    }
                                } else {
                                    out.fail("prefer-prefix-decision", format!("prefer_prefix on returned None, off {s}; {}", ctx()));
                                }
                            }
                        }
                    }
                }
            }
        }
        if scores_seen.windows(2).any(|w| w[0] != w[1]) {
            out.fail("representation-dependent-score", format!("scores differ across representations: {scores_seen:?}; haystack={} needle={} cfg={cfg:?}", show(&hay), show(&needle)));
        }
        out
    }
}
