//! C10 — the matcher is total, memory-safe and independent of its call history (proptest tier;
//! the coverage-guided tier is the cargo-fuzz target `fuzz_matcher`).

use crate::mcase::*;
use nucleo_matcher::Matcher;
use proptest::prelude::*;
use serde::{Deserialize, Serialize};
use vcommon::driver::{guarded, Check, Outcome, Tier};
use vcommon::gen::{self, derive_needle, map_idx, needle_mode, text_from};
use vcommon::oracle::*;

pub struct C10;

/// text storage that keeps its address from call to call
struct StableBuf {
    chars: Vec<char>,
    bytes: Vec<u8>,
}
impl StableBuf {
    fn new(cap: usize) -> StableBuf {
        StableBuf { chars: Vec::with_capacity(cap), bytes: Vec::with_capacity(cap) }
    }
    fn load<'a>(&'a mut self, s: &'a Strs, r: Repr) -> nucleo_matcher::Utf32Str<'a> {
        match r {
            Repr::Ascii => {
                let b = s.bytes.as_ref().expect("ascii repr of non-ascii text");
                if b.len() > self.bytes.capacity() {
                    return s.get(r);
                }
                self.bytes.clear();
                self.bytes.extend_from_slice(b);
                nucleo_matcher::Utf32Str::Ascii(&self.bytes)
            }
            Repr::Unicode => {
                if s.chars.len() > self.chars.capacity() {
                    return s.get(r);
                }
                self.chars.clear();
                self.chars.extend_from_slice(&s.chars);
                nucleo_matcher::Utf32Str::Unicode(&self.chars)
            }
        }
    }
}

#[derive(Clone, Debug, Serialize, Deserialize, Hash)]
pub struct Call {
    pub algo: Algo,
    pub indices: bool,
    pub cfg: Cfg,
    pub hay: Text,
    pub needle: Text,
    pub hay_unicode: bool,
    pub needle_unicode: bool,
    pub prior: Vec<u32>,
    /// 1: the shared matcher is replaced by a clone of itself before this call (the original is dropped);
    /// 2: this call runs on a temporary clone that is dropped afterwards
    #[serde(default)]
    pub clone_mode: u8,
}

#[derive(Clone, Debug, Serialize, Deserialize, Hash)]
pub struct SeqCase {
    pub calls: Vec<Call>,
}

fn algo() -> BoxedStrategy<Algo> {
    prop_oneof![
        50 => Just(Algo::Fuzzy),
        15 => Just(Algo::Greedy),
        12 => Just(Algo::Substring),
        8 => Just(Algo::Prefix),
        8 => Just(Algo::Postfix),
        7 => Just(Algo::Exact),
    ]
    .boxed()
}

fn call_strategy(pal: Vec<char>) -> BoxedStrategy<Call> {
    let pal2 = pal.clone();
    let small = (proptest::collection::vec(any::<u16>(), 0..=40), Just((0u32, 0u32)));
    let medium = (proptest::collection::vec(any::<u16>(), 1..=6), (50u32..2500).prop_map(|h| (h, 0u32)));
    let limit = (proptest::collection::vec(any::<u16>(), 1..=4), proptest::sample::select(limit_sizes().clone()));
    let hay = prop_oneof![72 => small, 16 => medium, 12 => limit];
    (hay, algo(), any::<bool>(), gen::any_cfg(), needle_mode(8), 0u8..5, any::<u16>(), any::<bool>(), any::<bool>(), proptest::collection::vec(any::<u32>(), 0..=2), proptest::sample::select(vec![0u32, 0, 0, 2, 100, 101, 319, 320, 2047, 2048, 2049, 3000]))
        .prop_map(move |((hs, (tile, limit_needle)), algo, indices, cfg, mode, nshape, nsel, hu, nu, prior, ntile)| {
            // a limit class fixes the needle length too (tiled motif)
            let (nshape, ntile) = if limit_needle > 0 && nshape != 2 { (3u8, limit_needle) } else { (nshape, ntile) };
            let motif = text_from(&pal, &hs);
            let hay = Text { motif: motif.clone(), tile_to: tile, tail: vec![], head: vec![] };
            // needle: normalized derivation, or raw (possibly not normalized) palette text, or tiled
            let needle = match nshape {
                0 | 1 => Text::plain(derive_needle(&hay.expand()[..hay.expand().len().min(300)], &pal, cfg, &mode)),
                2 => {
                    // raw, not normalized: characters straight from the palette / haystack
                    let h = hay.expand();
                    let k = (map_idx(nsel, 6) + 1).min(h.len().max(1));
                    let st = map_idx(nsel, h.len().max(1));
                    let raw: Vec<char> = if h.is_empty() { vec![pal[0]] } else { h.iter().cycle().skip(st).step_by(2).take(k).copied().collect() };
                    Text::plain(raw)
                }
                4 => {
                    // two or three ASCII characters without any letter (digits, punctuation): usually rejected early
                    const NL: &[char] = &['4', '2', '7', '.', '-', '_', '/', ':', '[', '{', '@', '~'];
                    let k = 2 + (nsel as usize & 1);
                    Text::plain((0..k).map(|i| NL[(nsel as usize >> (4 * i + 1)) % NL.len()]).collect())
                }
                _ => Text { motif: motif.iter().map(|&c| norm(c, cfg)).collect(), tile_to: ntile, tail: vec![], head: vec![] },
            };
            Call { algo, indices, cfg, hay, needle, hay_unicode: hu, needle_unicode: nu, prior, clone_mode: 0 }
        })
        .prop_flat_map(move |c| {
            let _ = &pal2;
            (prop_oneof![88 => Just(0u8), 6 => Just(1u8), 6 => Just(2u8)], prop_oneof![96 => Just(0u32), 4 => proptest::sample::select(vec![65_534u32, 65_535, 65_536, 65_537, 70_000, 139_000])]).prop_map(move |(m, far)| {
                let mut c = c.clone();
                c.clone_mode = m;
                // a small haystack moved behind 64k+ filler characters (offsets beyond 16 bits)
                if far > 0 && c.hay.tile_to == 0 && c.hay.motif.len() <= 60 {
                    // behind the filler, or split around it (one gap of 64k+ characters)
                    let k = if far % 2 == 0 { 0 } else { c.hay.motif.len().min(1) };
                    c.hay = Text { head: c.hay.motif[..k].to_vec(), motif: vec!['q'], tile_to: far, tail: c.hay.motif[k..].to_vec() };
                }
                c
            })
        })
        .boxed()
}

fn in_matrix_range(h: usize, n: usize) -> bool {
    n >= 2 && h > n && h * n <= 100 * 1024
}

impl Check for C10 {
    type Case = SeqCase;
    fn id(&self) -> &'static str {
        "C10"
    }
    fn rule(&self) -> String {
        "sequences of 1-6 calls sharing one Matcher (configuration assigned only when it differs from the previous call's; 40% of the sequences use one configuration throughout; haystack and needle of every call are stored at the same addresses): algorithm among the 12 entry points, haystack from a per-sequence palette (0-40 chars - in 4% of the calls behind 65534..139000 filler characters -, 50-2500 tiled, or a limit size from {1023..1025, 320/321, 51200/51201, 65535/65536, 70000, 100000, 120000}), needle normalized-derived / raw not-normalized / 2-3 ASCII non-letters / tiled to {2,100,101,319,320,2047,2048,2049,3000}, representation bits, prior index content; before 12% of the calls the shared matcher is replaced by a clone of itself (original dropped) or the call runs on a temporary clone. Oracle: no panic or overflow (checked profile), every scratch view exported by the slab hook lies inside the slab allocation, and result + appended indices equal those of a freshly created matcher. Non-trivial: the sequence has >= 2 calls that reached the matrix allocator with different sizes, a later one smaller, or a call in a limit class. Distinct by case hash. The cargo-fuzz target fuzz_matcher (ASan + debug assertions) runs the same oracle coverage-guided in the thorough tier.".into()
    }
    fn assumptions(&self) -> Vec<String> {
        vec!["haystacks stay far below the documented 2^32 limit (memory)".into(), "Miri-grade provenance rules are not checked; 'forming references' is covered for the five slab views through the exported extents".into()]
    }
    fn total_cases(&self, tier: Tier) -> u64 {
        match tier {
            Tier::Quick => 60_000,
            Tier::Thorough => 5_000_000,
        }
    }
    fn strategy(&self, _tier: Tier) -> BoxedStrategy<SeqCase> {
        (gen::any_palette().prop_flat_map(|pal| proptest::collection::vec(call_strategy(pal), 1..=6)), proptest::bool::weighted(0.4))
            .prop_map(|(mut calls, same_cfg)| {
                // in 40% of the sequences all calls use one configuration (which is then assigned only once)
                if same_cfg {
                    let c0 = calls[0].cfg;
                    for c in calls.iter_mut() {
                        c.cfg = c0;
                    }
                }
                SeqCase { calls }
            })
            .boxed()
    }
    fn run(&self, case: &SeqCase) -> Outcome {
        let mut out = Outcome::default();
        // the shared matcher is created with the configuration of the first call and reconfigured through
        // its public `config` field afterwards (a matcher must not remember anything about the config it was
        // created with)
        let mut shared = Matcher::new(case.calls.first().map(|c| c.cfg).unwrap_or(Cfg { ignore_case: true, normalize: true, prefer_prefix: false, profile: 0 }).to_config());
        let mut alloc_sizes: Vec<(usize, usize)> = vec![];
        // haystacks and needles of all calls live in the same four buffers (same addresses, new contents): a
        // matcher must not recognise its inputs by where they are stored
        let mut hbuf = StableBuf::new(140_000);
        let mut nbuf = StableBuf::new(8_192);
        let mut prev_cfg: Option<Cfg> = None;
        let mut limit_class = false;
        for (k, c) in case.calls.iter().enumerate() {
            out.sub_evals += 1;
            let hay = Strs::new(c.hay.expand());
            let needle = Strs::new(c.needle.expand());
            let hr = if c.hay_unicode || hay.bytes.is_none() { Repr::Unicode } else { Repr::Ascii };
            let nr = if c.needle_unicode || needle.bytes.is_none() { Repr::Unicode } else { Repr::Ascii };
            let ctx = || format!("call #{k} {}{} ({}x{}) haystack={} needle={} cfg={:?}", c.algo.name(), if c.indices { "_indices" } else { "_match" }, hr.name(), nr.name(), show(&hay.chars), show(&needle.chars), c.cfg);
            if c.hay.tile_to > 0 && limit_sizes().iter().any(|x| x.0 == c.hay.tile_to) {
                limit_class = true;
            }
            let _ = nucleo_matcher::verif::take_last_slab_extents();
            if c.clone_mode == 1 {
                let cl = shared.clone();
                shared = cl;
                out.label("shared-matcher-replaced-by-its-clone");
            }
            let mut tmp;
            let target: &mut Matcher = if c.clone_mode == 2 {
                tmp = shared.clone();
                out.label("call-on-temporary-clone");
                &mut tmp
            } else {
                &mut shared
            };
            // the configuration is only assigned when it differs from the previous call's: whatever a call does
            // to the matcher's configuration internally has to be undone by the call itself
            if c.clone_mode == 2 || prev_cfg != Some(c.cfg) {
                target.config = c.cfg.to_config();
            } else {
                out.label("config-not-reassigned");
            }
            if c.clone_mode != 2 {
                prev_cfg = Some(c.cfg);
            }
            let hv = hbuf.load(&hay, hr);
            let nv = nbuf.load(&needle, nr);
            let r1 = guarded(|| {
                let mut v = prior_vec(&c.prior, 2);
                let r = call(target, c.algo, hv, nv, c.indices.then_some(&mut v));
                (r, v)
            });
            let ext = nucleo_matcher::verif::take_last_slab_extents();
            let r2 = guarded(|| {
                let mut m = Matcher::new(c.cfg.to_config());
                let mut v = prior_vec(&c.prior, 2);
                let r = call(&mut m, c.algo, hay.get(hr), needle.get(nr), c.indices.then_some(&mut v));
                (r, v)
            });
            let _ = nucleo_matcher::verif::take_last_slab_extents();
            if let Some(e) = ext {
                alloc_sizes.push((e.haystack_len, e.needle_len));
                out.label("reached-matrix-allocator");
                for (i, &(off, len)) in e.views.iter().enumerate() {
                    if off.checked_add(len).map_or(true, |end| end > e.slab_size) {
                        out.fail(
                            "view-outside-slab",
                            format!("scratch view #{i} (0 haystack, 1 bonus, 2 row offsets, 3 score row, 4 matrix) covers bytes [{off}, {}) but the slab allocation has {} bytes (window {} x needle {}); {}", off + len, e.slab_size, e.haystack_len, e.needle_len, ctx()),
                        );
                    }
                }
            }
            match (&r1, &r2) {
                (Err(p), _) => {
                    let loc = p.rsplit(" at ").next().unwrap_or("").to_string();
                    out.fail(format!("panic:{loc}"), format!("panicked on the shared matcher: {p}; {}", ctx()));
                    shared = Matcher::new(c.cfg.to_config());
                }
                (_, Err(p)) => {
                    let loc = p.rsplit(" at ").next().unwrap_or("").to_string();
                    out.fail(format!("panic:{loc}"), format!("panicked on a fresh matcher: {p}; {}", ctx()));
                }
                (Ok(a), Ok(b)) => {
                    if a != b {
                        out.fail("history-dependence", format!("shared matcher returned {:?} {:?}, a fresh matcher {:?} {:?}; earlier calls: {}; {}", a.0, &a.1[..a.1.len().min(16)], b.0, &b.1[..b.1.len().min(16)], k, ctx()));
                    }
                }
            }
            if !needle.chars.iter().all(|&ch| is_fixed(ch, c.cfg)) {
                out.label("needle-not-normalized");
            }
            if in_matrix_range(hay.chars.len(), needle.chars.len()) && c.algo == Algo::Fuzzy {
                out.label("matrix-size-call");
            }
        }
        let mut shrinking = false;
        for i in 0..alloc_sizes.len() {
            for j in i + 1..alloc_sizes.len() {
                if alloc_sizes[j] != alloc_sizes[i] && alloc_sizes[j].0 * alloc_sizes[j].1 < alloc_sizes[i].0 * alloc_sizes[i].1 {
                    shrinking = true;
                }
            }
        }
        if shrinking {
            out.label("later-smaller-matrix");
        }
        if limit_class {
            out.label("limit-class");
        }
        out.nontrivial = shrinking || limit_class;
        out
    }
}

// ------------------------------------------------------------------------------------------
// byte decoder for the coverage-guided tier (cargo-fuzz target fuzz_matcher)
// ------------------------------------------------------------------------------------------
pub struct Bytes<'a>(pub &'a [u8], pub usize);
impl Bytes<'_> {
    pub fn byte(&mut self) -> u8 {
        let b = self.0.get(self.1).copied().unwrap_or(0);
        self.1 += 1;
        b
    }
    pub fn below(&mut self, n: usize) -> usize {
        if n <= 1 {
            0
        } else {
            self.byte() as usize % n
        }
    }
    pub fn u16(&mut self) -> u16 {
        (self.byte() as u16) << 8 | self.byte() as u16
    }
    pub fn done(&self) -> bool {
        self.1 >= self.0.len()
    }
}

const FUZZ_POOL: &[char] = &[
    'a', 'b', 'c', 'x', 'A', 'B', 'C', 'X', '0', '1', '9', ' ', '\t', '\n', '\r', '/', ',', ':', ';', '|', '\\', '-', '_', '.', '(', '!', '^', '$', '\'', '"', 'ä', 'é', 'É', 'ñ', 'ł', 'Æ', 'ß', 'º', '⁹', 'ḋ', 'ẛ', 'ſ', 'σ', 'ς', 'Σ', 'µ', 'μ', 'ж', 'Ж', '漢', 'か', '²', 'Ⅷ', '😀', '\u{301}', '\u{a0}', '\u{3000}', 'ǅ', 'ǆ', 'ɐ', 'Ɐ', '\u{b}', '\u{c}', 'İ',
];

pub fn decode_seq(data: &[u8]) -> SeqCase {
    let mut b = Bytes(data, 0);
    let np = 2 + b.below(5);
    let pal: Vec<char> = (0..np).map(|_| FUZZ_POOL[b.below(FUZZ_POOL.len())]).collect();
    let ncalls = 1 + b.below(4);
    let mut calls = vec![];
    for _ in 0..ncalls {
        let algo = ALL_ALGOS[b.below(6)];
        let flags = b.byte();
        let cfg = Cfg { ignore_case: flags & 1 != 0, normalize: flags & 2 != 0, prefer_prefix: flags & 4 != 0, profile: (flags >> 3) % 3 };
        let indices = flags & 64 != 0;
        let size_class = b.byte();
        let hlen = b.below(41);
        let motif: Vec<char> = (0..hlen).map(|_| pal[b.below(pal.len())]).collect();
        let mut limit_needle = 0u32;
        let tile = if size_class < 200 || motif.is_empty() {
            0
        } else if size_class < 235 {
            50 + (b.u16() as u32 % 2450)
        } else {
            let (h, n) = limit_sizes()[b.below(limit_sizes().len())];
            limit_needle = n;
            h
        };
        let hay = Text { motif: motif.clone(), tile_to: tile, tail: vec![], head: vec![] };
        let mut nshape = b.below(4);
        if limit_needle > 0 && nshape != 2 {
            nshape = 3;
        }
        let nlen = 1 + b.below(8);
        let needle = match nshape {
            0 => {
                // subsequence of the normalized haystack
                let h = hay.expand();
                let h = &h[..h.len().min(300)];
                let mut pos: Vec<usize> = (0..nlen).map(|_| map_idx(b.u16(), h.len())).collect();
                pos.sort();
                pos.dedup();
                Text::plain(if h.is_empty() { vec![] } else { pos.into_iter().map(|p| norm_fix(norm(h[p], cfg), cfg)).collect() })
            }
            1 => Text::plain((0..nlen).map(|_| norm_fix(pal[b.below(pal.len())], cfg)).collect()),
            2 => Text::plain((0..nlen).map(|_| pal[b.below(pal.len())]).collect()),
            _ => {
                let sizes = [2u32, 100, 101, 319, 320, 2047, 2048, 2049, 3000];
                let t = if limit_needle > 0 { limit_needle } else { sizes[b.below(sizes.len())] };
                Text { motif: motif.iter().map(|&c| norm(c, cfg)).collect(), tile_to: t, tail: vec![], head: vec![] }
            }
        };
        let r = b.byte();
        let prior = (0..(r >> 6)).map(|i| i as u32 * 7).collect();
        calls.push(Call { algo, indices, cfg, hay, needle, hay_unicode: r & 1 != 0, needle_unicode: r & 2 != 0, prior, clone_mode: if (r >> 2) & 7 == 1 { 1 } else if (r >> 2) & 7 == 2 { 2 } else { 0 } });
    }
    SeqCase { calls }
}
