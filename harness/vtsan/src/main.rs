//! Runs ONE generated script under ThreadSanitizer. Inter-thread sequencing uses only relaxed
//! atomics polled with sleeps: a mutex/condvar/channel gate would add happens-before edges that
//! mask exactly the races this check is after, and busy polling floods TSan's bounded history.
include!("script.rs");

use nucleo::pattern::{CaseMatching, Normalization};
use nucleo::verif::RawVec;
use nucleo::{Config, Injector, Nucleo, Utf32String};
use std::sync::atomic::{AtomicU32, AtomicU64, Ordering};
use std::sync::Arc;
use std::time::{Duration, Instant};

static FLAGS: [AtomicU32; 16] = [const { AtomicU32::new(0) }; 16];
static SINK: AtomicU64 = AtomicU64::new(0);
static SLOTS: [AtomicU64; 8] = [const { AtomicU64::new(0) }; 8];
static GATE_LEN: AtomicU32 = AtomicU32::new(0);
static GATE_PARTIES: AtomicU32 = AtomicU32::new(0);
static GATE_ARRIVED: AtomicU32 = AtomicU32::new(0);

/// verif-hooks callback: only relaxed atomics and sleeps (no happens-before edges are added)
fn hook(s: u32, arg: u64) {
    if s == nucleo::verif::site::BOXCAR_CAS && arg as u32 == GATE_LEN.load(Ordering::Relaxed) && arg != 0 {
        let parties = GATE_PARTIES.load(Ordering::Relaxed);
        let me = GATE_ARRIVED.fetch_add(1, Ordering::Relaxed) + 1;
        if me <= parties {
            let t0 = Instant::now();
            while GATE_ARRIVED.load(Ordering::Relaxed) < parties && t0.elapsed() < Duration::from_millis(400) {
                std::thread::sleep(Duration::from_micros(200));
            }
        }
    }
}

fn set_flag(k: u8) {
    FLAGS[k as usize % 16].store(1, Ordering::Relaxed);
}
fn wait_flag(k: u8) {
    let t0 = Instant::now();
    while FLAGS[k as usize % 16].load(Ordering::Relaxed) == 0 {
        std::thread::sleep(Duration::from_millis(2));
        if t0.elapsed() > Duration::from_secs(3) {
            break;
        }
    }
}

struct Item {
    id: u64,
    tag: [u64; 3],
}
fn item(id: u64) -> Item {
    Item { id, tag: [id, !id, id ^ 0x55] }
}
fn fill(it: &Item, cols: &mut [Utf32String]) {
    for (k, c) in cols.iter_mut().enumerate() {
        *c = Utf32String::from(if (it.id + k as u64) % 3 == 0 { "ab" } else { "b" });
    }
}
/// read everything a user can read from an item
fn consume(it: nucleo::Item<'_, Item>) {
    let mut x = it.data.id ^ it.data.tag[0] ^ it.data.tag[1] ^ it.data.tag[2];
    for c in it.matcher_columns {
        x = x.wrapping_add(c.len() as u64);
        if let Some(ch) = c.slice(..).chars().next() {
            x = x.wrapping_add(ch as u64);
        }
    }
    SINK.fetch_add(x, Ordering::Relaxed);
}

enum Target {
    Raw(Arc<RawVec<Item>>),
    Inj(Injector<Item>),
}
impl Target {
    fn push(&self, it: Item, f: impl FnOnce(&Item, &mut [Utf32String])) -> u32 {
        match self {
            Target::Raw(v) => v.push(it, f),
            Target::Inj(i) => i.push(it, f),
        }
    }
    /// the item is known to be published (its push has returned); the index came through a relaxed channel
    fn get_unchecked(&self, idx: u32) {
        match self {
            Target::Raw(v) => {
                if let Some(it) = v.get(idx) {
                    consume(it);
                }
            }
            Target::Inj(i) => consume(unsafe { i.get_unchecked(idx) }),
        }
    }
    fn extend(&self, its: Vec<Item>, f: impl Fn(&Item, &mut [Utf32String])) {
        match self {
            Target::Raw(v) => v.extend(its.into_iter(), f),
            Target::Inj(i) => i.extend(its.into_iter(), f),
        }
    }
    fn get(&self, idx: u32) {
        let it = match self {
            Target::Raw(v) => v.get(idx),
            Target::Inj(i) => i.get(idx),
        };
        if let Some(it) = it {
            consume(it);
        }
    }
    fn count(&self) -> u32 {
        match self {
            Target::Raw(v) => v.count(),
            Target::Inj(i) => i.injected_items(),
        }
    }
    fn scan(&self, start: u32) {
        match self {
            Target::Raw(v) => {
                let s = start.min(v.count());
                for (_, it) in v.snapshot(s) {
                    if let Some(it) = it {
                        consume(it);
                    }
                }
            }
            Target::Inj(i) => {
                for k in start..i.injected_items() {
                    if let Some(it) = i.get(k) {
                        consume(it);
                    }
                }
            }
        }
    }
}

fn run_ops(ops: &[SOp], t: usize, target: &Target, mut nuc: Option<&mut Nucleo<Item>>) {
    let mut next = (t as u64 + 1) << 32;
    let mut new_id = || {
        next += 1;
        next
    };
    for op in ops {
        match op {
            SOp::Push { n } => {
                for _ in 0..*n {
                    target.push(item(new_id()), fill);
                }
            }
            SOp::Extend { n } => {
                let v: Vec<Item> = (0..*n).map(|_| item(new_id())).collect();
                target.extend(v, fill);
            }
            SOp::PushHeld { set, wait } => {
                let (s, w) = (*set, *wait);
                target.push(item(new_id()), move |it, c| {
                    fill(it, c);
                    set_flag(s);
                    wait_flag(w);
                });
            }
            SOp::ExtendHeld { n, at, set, wait } => {
                let v: Vec<Item> = (0..*n).map(|_| item(new_id())).collect();
                let hold_id = v.get(*at as usize).map(|i| i.id);
                let (s, w) = (*set, *wait);
                target.extend(v, move |it, c| {
                    fill(it, c);
                    if Some(it.id) == hold_id {
                        set_flag(s);
                        wait_flag(w);
                    }
                });
            }
            SOp::PushTell { slot } => {
                let idx = target.push(item(new_id()), fill);
                SLOTS[*slot as usize % 8].store(idx as u64 + 1, Ordering::Relaxed);
            }
            SOp::GetUncheckedTold { slot } => {
                let t0 = Instant::now();
                loop {
                    let v = SLOTS[*slot as usize % 8].load(Ordering::Relaxed);
                    if v != 0 {
                        target.get_unchecked((v - 1) as u32);
                        break;
                    }
                    if t0.elapsed() > Duration::from_secs(3) {
                        break;
                    }
                    std::hint::spin_loop();
                }
            }
            SOp::Get { idx } => target.get(*idx),
            SOp::GetRange { from, to } => {
                for i in *from..(*to).min(*from + 5000) {
                    target.get(i);
                }
            }
            SOp::Scan { start } => target.scan(*start),
            SOp::Tick { timeout } => {
                if let Some(n) = nuc.as_deref_mut() {
                    n.tick(*timeout as u64 % 20);
                    let snap = n.snapshot();
                    let c = snap.matched_item_count();
                    for it in snap.matched_items(0..c) {
                        consume(it);
                    }
                    for m in snap.matches() {
                        if let Some(it) = snap.get_item(m.idx) {
                            consume(it);
                        }
                    }
                    SINK.fetch_add(snap.item_count() as u64, Ordering::Relaxed);
                }
            }
            SOp::Reparse { text } => {
                if let Some(n) = nuc.as_deref_mut() {
                    let texts = ["a", "b", "ab", "", "a b", "!a"];
                    n.pattern.reparse(0, texts[*text as usize % texts.len()], CaseMatching::Smart, Normalization::Smart, false);
                }
            }
            SOp::Restart { clear } => {
                if let Some(n) = nuc.as_deref_mut() {
                    n.restart(*clear);
                }
            }
            SOp::SetFlag { k } => set_flag(*k),
            SOp::WaitFlag { k } => wait_flag(*k),
            SOp::SleepMs { ms } => std::thread::sleep(Duration::from_millis(*ms as u64 % 20)),
            SOp::GateCas { len, parties } => {
                GATE_ARRIVED.store(0, Ordering::Relaxed);
                GATE_PARTIES.store(*parties as u32, Ordering::Relaxed);
                GATE_LEN.store(*len, Ordering::Relaxed);
            }
        }
    }
    let _ = target.count();
}

fn main() {
    let path = std::env::args().nth(1).expect("usage: vtsan <script.json>");
    let v: serde_json::Value = serde_json::from_slice(&std::fs::read(&path).expect("read script")).expect("json");
    let v = v.get("case").cloned().unwrap_or(v);
    let sc: Script = serde_json::from_value(v).expect("script");
    let cols = sc.columns.max(1) as u32;
    nucleo::verif::set_hook(Some(hook));
    if !sc.nucleo {
        let vec = Arc::new(RawVec::<Item>::with_capacity(sc.capacity, cols));
        let mut hs = vec![];
        for (t, ops) in sc.threads.iter().enumerate() {
            let vec = vec.clone();
            let ops = ops.clone();
            hs.push(std::thread::spawn(move || run_ops(&ops, t, &Target::Raw(vec), None)));
        }
        for h in hs {
            let _ = h.join();
        }
    } else {
        let mut nuc: Nucleo<Item> = Nucleo::new(Config::DEFAULT, Arc::new(|| {}), Some(sc.pool_threads.clamp(1, 4) as usize), cols);
        let mut hs = vec![];
        for (t, ops) in sc.threads.iter().enumerate().skip(1) {
            let inj = nuc.injector();
            let ops = ops.clone();
            hs.push(std::thread::spawn(move || run_ops(&ops, t, &Target::Inj(inj), None)));
        }
        let inj = nuc.injector();
        if let Some(ops) = sc.threads.first() {
            run_ops(ops, 0, &Target::Inj(inj), Some(&mut nuc));
        }
        // release every gate so that held writers finish
        for k in 0..16 {
            set_flag(k);
        }
        for h in hs {
            let _ = h.join();
        }
        for _ in 0..20 {
            if !nuc.tick(10).running {
                break;
            }
        }
        drop(nuc);
    }
    eprintln!("script done sink={}", SINK.load(Ordering::Relaxed));
}
