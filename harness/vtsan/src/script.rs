// Script format shared (by include!) between the TSan runner and the generator in vconc.
#[derive(Clone, Debug, serde::Serialize, serde::Deserialize, Hash, PartialEq, Eq)]
pub enum SOp {
    /// n plain pushes
    Push { n: u16 },
    /// extend by n items
    Extend { n: u16 },
    /// push whose fill callback sets flag `set` and waits (polling, relaxed) for flag `wait`
    PushHeld { set: u8, wait: u8 },
    /// extend by n items; the fill callback of item `at` sets flag `set` and waits for flag `wait`
    ExtendHeld { n: u16, at: u16, set: u8, wait: u8 },
    Get { idx: u32 },
    /// get every index in [from, to)
    GetRange { from: u32, to: u32 },
    /// sequential snapshot scan from `start` (raw vector) / injected_items (nucleo)
    Scan { start: u32 },
    /// nucleo only: tick and read every matched item (data + columns)
    Tick { timeout: u8 },
    Reparse { text: u8 },
    Restart { clear: bool },
    SetFlag { k: u8 },
    WaitFlag { k: u8 },
    SleepMs { ms: u8 },
    /// arm a rendezvous at the bucket CAS for buckets of `len` entries: the next `parties` threads that
    /// are about to install such a bucket wait for each other (relaxed polling) and then race
    GateCas { len: u32, parties: u8 },
    /// push one item and tell its index to slot `slot` through a relaxed store (no synchronisation of its own)
    PushTell { slot: u8 },
    /// wait (relaxed polling) for an index in slot `slot`, then read that item through the unchecked getter
    /// (nucleo: `Injector::get_unchecked`; raw vector: the checked getter)
    GetUncheckedTold { slot: u8 },
}

#[derive(Clone, Debug, serde::Serialize, serde::Deserialize, Hash)]
pub struct Script {
    /// false: raw vector through the facade, true: a whole Nucleo (thread 0 owns it and is the only ticker)
    pub nucleo: bool,
    pub capacity: u32,
    pub columns: u8,
    pub pool_threads: u8,
    pub threads: Vec<Vec<SOp>>,
}
