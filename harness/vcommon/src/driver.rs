//! Generic check driver: sharded generated-input search, shrinking, replay files, known-finding
//! classification and evidence writing. Every check binary funnels through `main_for`.
//!
//! Process model: the parent re-executes its own binary once per shard (`--shard i/k`); every
//! shard child runs a proptest `TestRunner` seeded from (VERIF_SEED, property id, shard index) and
//! writes a JSON shard report. The parent merges, writes /verif/evidence/<id>.json and prints
//! `VIOLATION property=<id> replay=<path>` / `KNOWN-FINDING: property=<id> <what>` lines.
//!
//! Exit codes: 0 held on everything explored; 1 at least one VIOLATION; 2 infrastructure failure
//! (child died without a case to blame, watchdog) – never used for "too few interesting cases".

use proptest::strategy::{BoxedStrategy, Strategy, ValueTree};
use proptest::test_runner::{Config, RngAlgorithm, RngSeed, TestCaseError, TestError, TestRng, TestRunner};
use serde::de::DeserializeOwned;
use serde::{Deserialize, Serialize};
use serde_json::{json, Value};
use std::cell::RefCell;
use std::collections::{BTreeMap, HashSet};
use std::hash::{Hash, Hasher};
use std::path::{Path, PathBuf};
use std::time::{Duration, Instant};

#[derive(Clone, Copy, PartialEq, Eq, Debug)]
pub enum Tier {
    Quick,
    Thorough,
}
impl Tier {
    pub fn name(self) -> &'static str {
        match self {
            Tier::Quick => "quick",
            Tier::Thorough => "thorough",
        }
    }
}

#[derive(Debug, Clone)]
pub struct Failure {
    /// narrow classification used to match known findings
    pub signature: String,
    /// human readable explanation of the oracle's verdict
    pub message: String,
}

#[derive(Default, Debug)]
pub struct Outcome {
    pub nontrivial: bool,
    pub labels: Vec<&'static str>,
    pub fail: Option<Failure>,
    /// additional number of elementary oracle evaluations performed by this case (optional)
    pub sub_evals: u64,
}
impl Outcome {
    pub fn fail(&mut self, sig: impl Into<String>, msg: impl Into<String>) {
        if self.fail.is_none() {
            self.fail = Some(Failure { signature: sig.into(), message: msg.into() });
        }
    }
    pub fn label(&mut self, l: &'static str) {
        if !self.labels.contains(&l) {
            self.labels.push(l);
        }
    }
}

pub trait Check: Sync {
    type Case: Clone + std::fmt::Debug + Serialize + DeserializeOwned + Hash + 'static;
    fn id(&self) -> &'static str;
    /// how cases are generated and what makes one non-trivial
    fn rule(&self) -> String;
    fn assumptions(&self) -> Vec<String> {
        vec![]
    }
    /// number of generated cases for the whole run (split across shards)
    fn total_cases(&self, tier: Tier) -> u64;
    fn strategy(&self, tier: Tier) -> BoxedStrategy<Self::Case>;
    /// deterministic scenario templates, run before the random tier in every run
    fn templates(&self, _tier: Tier) -> Vec<Self::Case> {
        vec![]
    }
    fn run(&self, case: &Self::Case) -> Outcome;
    /// run every case in a child that journals the case before executing it (aborts, UB)
    /// cases evaluated by the parent itself (regressions, templates, replays) run in a child process if this says so
    fn isolate_case(&self, _case: &Self::Case) -> bool {
        self.isolate()
    }
    /// a journaling shard whose current case is older than this is considered hung
    fn case_stall_limit(&self) -> Duration {
        Duration::from_secs(120)
    }
    /// wall-clock limit for one case re-run alone in a child process (kill + inconclusive afterwards)
    fn one_case_limit(&self) -> Duration {
        Duration::from_secs(60)
    }
    fn isolate(&self) -> bool {
        false
    }
    fn shards(&self, _tier: Tier) -> usize {
        16
    }
    fn exhaustive(&self) -> bool {
        false
    }
    fn max_shrink_iters(&self) -> u32 {
        4096
    }
    /// watchdog for the whole run
    fn watchdog(&self, tier: Tier) -> Duration {
        match tier {
            Tier::Quick => Duration::from_secs(1500),
            Tier::Thorough => Duration::from_secs(6 * 3600),
        }
    }
    /// override for non-proptest (enumerating) shards; return true if handled
    fn custom_shard(&self, _tier: Tier, _seed: u64, _shard: usize, _nshards: usize, _acc: &mut Acc) -> bool {
        false
    }
    fn extra_coverage(&self) -> Value {
        json!({})
    }
    /// evidence level (must equal MANIFEST level_claimed.category)
    fn level(&self) -> &'static str {
        "exploration"
    }
}

#[derive(Serialize, Deserialize, Default, Debug)]
pub struct FailRec {
    pub case: Value,
    pub signature: String,
    pub message: String,
}

#[derive(Serialize, Deserialize, Default, Debug)]
pub struct Acc {
    pub evaluations: u64,
    pub sub_evals: u64,
    pub nontrivial: HashSet<u64>,
    pub labels: BTreeMap<String, u64>,
    pub samples: Vec<Value>,
    /// known-finding signature -> (count, first example)
    pub known: BTreeMap<String, (u64, Value)>,
    pub failure: Option<FailRec>,
    #[serde(skip)]
    pub frozen: bool,
    #[serde(skip)]
    seen_labels: HashSet<String>,
}

pub fn case_hash<T: Hash>(c: &T) -> u64 {
    #[allow(deprecated)]
    let mut h = std::hash::SipHasher::new();
    c.hash(&mut h);
    h.finish()
}

impl Acc {
    pub fn record<C: Serialize + Hash>(&mut self, case: &C, out: &Outcome) {
        if self.frozen {
            return;
        }
        self.evaluations += 1;
        self.sub_evals += out.sub_evals;
        let mut want_sample = false;
        for l in &out.labels {
            *self.labels.entry((*l).to_string()).or_insert(0) += 1;
            if self.seen_labels.insert((*l).to_string()) && self.samples.len() < 24 {
                want_sample = true;
            }
        }
        if out.nontrivial {
            let fresh = self.nontrivial.insert(case_hash(case));
            if fresh && self.nontrivial.len() <= 3 {
                want_sample = true;
            }
        }
        if want_sample {
            self.samples.push(json!({"case": serde_json::to_value(case).unwrap_or(Value::Null), "labels": out.labels, "nontrivial": out.nontrivial}));
        }
    }
    pub fn record_raw(&mut self, hash: u64, nontrivial: bool, labels: &[&'static str], sample: impl FnOnce() -> Value) {
        self.evaluations += 1;
        let mut want = false;
        for l in labels {
            *self.labels.entry((*l).to_string()).or_insert(0) += 1;
            if self.seen_labels.insert((*l).to_string()) && self.samples.len() < 24 {
                want = true;
            }
        }
        if nontrivial && self.nontrivial.insert(hash) && self.nontrivial.len() <= 3 {
            want = true;
        }
        if want {
            self.samples.push(sample());
        }
    }
}

#[derive(Deserialize, Debug, Clone)]
pub struct KnownEntry {
    pub property: String,
    pub signature: String,
    pub status: String,
    pub what: String,
    #[serde(default)]
    pub commit: Option<String>,
}

pub fn verif_root() -> PathBuf {
    if let Ok(r) = std::env::var("VERIF_ROOT") {
        return PathBuf::from(r);
    }
    // <root>/harness/target*/<profile>/<bin>
    if let Ok(exe) = std::env::current_exe() {
        let mut p = exe.as_path();
        for _ in 0..4 {
            if let Some(pp) = p.parent() {
                p = pp;
            }
        }
        if p.join("properties.jsonl").exists() {
            return p.to_path_buf();
        }
    }
    PathBuf::from("/verif")
}

pub fn load_known(id: &str) -> Vec<KnownEntry> {
    let p = verif_root().join("known_findings.json");
    let Ok(s) = std::fs::read_to_string(&p) else { return vec![] };
    let all: Vec<KnownEntry> = serde_json::from_str(&s).expect("known_findings.json is not valid");
    all.into_iter().filter(|e| e.property == id).collect()
}

pub fn seed_from_env() -> u64 {
    std::env::var("VERIF_SEED").ok().and_then(|s| s.trim().parse::<i128>().ok()).map(|v| v as u64).unwrap_or(0)
}

fn mix(seed: u64, id: &str, shard: u64) -> [u8; 32] {
    let mut out = [0u8; 32];
    let mut x = seed ^ 0x9E37_79B9_7F4A_7C15;
    for b in id.bytes() {
        x = x.wrapping_mul(0x100_0000_01B3) ^ b as u64;
    }
    x ^= shard.wrapping_mul(0xD6E8_FEB8_6659_FD93);
    for chunk in out.chunks_mut(8) {
        // splitmix64
        x = x.wrapping_add(0x9E37_79B9_7F4A_7C15);
        let mut z = x;
        z = (z ^ (z >> 30)).wrapping_mul(0xBF58_476D_1CE4_E5B9);
        z = (z ^ (z >> 27)).wrapping_mul(0x94D0_49BB_1331_11EB);
        z ^= z >> 31;
        chunk.copy_from_slice(&z.to_le_bytes());
    }
    out
}

thread_local! {
    static PANIC_MSG: RefCell<Option<String>> = RefCell::new(None);
}

/// Install a panic hook that records the message instead of printing (panics in the code under
/// test are oracle input, not noise).
pub fn quiet_panics() {
    std::panic::set_hook(Box::new(|info| {
        let loc = info.location().map(|l| format!("{}:{}", l.file(), l.line())).unwrap_or_default();
        let msg = if let Some(s) = info.payload().downcast_ref::<&str>() {
            s.to_string()
        } else if let Some(s) = info.payload().downcast_ref::<String>() {
            s.clone()
        } else {
            "panic".to_string()
        };
        PANIC_MSG.with(|m| *m.borrow_mut() = Some(format!("{msg} at {loc}")));
    }));
}
pub fn take_panic_msg() -> String {
    PANIC_MSG.with(|m| m.borrow_mut().take()).unwrap_or_else(|| "panic".into())
}

/// Run `f`, turning a panic into Err(message).
pub fn guarded<R>(f: impl FnOnce() -> R) -> Result<R, String> {
    match std::panic::catch_unwind(std::panic::AssertUnwindSafe(f)) {
        Ok(r) => Ok(r),
        Err(_) => Err(take_panic_msg()),
    }
}

fn run_case_classified<C: Check>(check: &C, case: &C::Case, known: &[KnownEntry], acc: &mut Acc, strict: bool) -> Result<(), Failure> {
    let out = match guarded(|| check.run(case)) {
        Ok(o) => o,
        Err(p) => {
            let mut o = Outcome::default();
            o.fail("harness-or-target-panic", format!("panic escaped the check body: {p}"));
            o
        }
    };
    match &out.fail {
        None => {
            acc.record(case, &out);
            Ok(())
        }
        Some(f) => {
            if !strict {
                if let Some(k) = known.iter().find(|k| k.status == "known" && k.signature == f.signature) {
                    if !acc.frozen {
                        let e = acc.known.entry(k.signature.clone()).or_insert_with(|| (0, json!({"case": serde_json::to_value(case).unwrap_or(Value::Null), "message": f.message})));
                        e.0 += 1;
                        acc.evaluations += 1;
                    }
                    return Ok(());
                }
            }
            Err(f.clone())
        }
    }
}

fn shard_main<C: Check>(check: &C, tier: Tier, seed: u64, shard: usize, nshards: usize, out: &Path, force_journal: bool, resume_after: u64) {
    quiet_panics();
    let mut acc = Acc::default();
    let known = load_known(check.id());
    let journal = out.with_extension("cur");
    if !check.custom_shard(tier, seed, shard, nshards, &mut acc) {
        let total = check.total_cases(tier);
        let cases = (total / nshards as u64 + if (shard as u64) < total % nshards as u64 { 1 } else { 0 }) as u32;
        let cfg = Config {
            cases,
            failure_persistence: None,
            rng_seed: RngSeed::Fixed(0),
            max_shrink_iters: check.max_shrink_iters(),
            max_global_rejects: 1 << 20,
            ..Config::default()
        };
        let rng = TestRng::from_seed(RngAlgorithm::ChaCha, &mix(seed, check.id(), shard as u64));
        let mut runner = TestRunner::new_with_rng(cfg, rng);
        let strat = check.strategy(tier);
        let isolate = check.isolate() || force_journal;
        let accref = RefCell::new(&mut acc);
        let first_failure: RefCell<Option<FailRec>> = RefCell::new(None);
        let case_index = std::cell::Cell::new(0u64);
        let res = runner.run(&strat, |case| {
            let mut a = accref.borrow_mut();
            if !a.frozen {
                case_index.set(case_index.get() + 1);
                if case_index.get() <= resume_after {
                    // already executed (or blamed) in an earlier incarnation of this shard
                    return Ok(());
                }
            }
            if isolate {
                let _ = std::fs::write(&journal, serde_json::to_vec(&json!({"index": case_index.get(), "case": case})).unwrap_or_default());
            }
            match run_case_classified(check, &case, &known, &mut a, false) {
                Ok(()) => Ok(()),
                Err(f) => {
                    a.frozen = true; // shrinking re-runs the closure: stop counting
                    let mut ff = first_failure.borrow_mut();
                    if ff.is_none() {
                        *ff = Some(FailRec { case: serde_json::to_value(&case).unwrap_or(Value::Null), signature: f.signature.clone(), message: f.message.clone() });
                    }
                    Err(TestCaseError::fail(f.signature))
                }
            }
        });
        drop(accref);
        let first_failure = first_failure.into_inner();
        match res {
            Ok(()) => {}
            Err(TestError::Fail(_, minimal)) => {
                // re-run the shrunk case for its explanation; a schedule-dependent failure may not
                // reproduce on the shrunk case every time: then report the originally failing case
                let mut fin = None;
                for _ in 0..3 {
                    match guarded(|| check.run(&minimal)) {
                        Ok(o) => {
                            if let Some(f) = o.fail {
                                fin = Some(f);
                                break;
                            }
                        }
                        Err(p) => {
                            fin = Some(Failure { signature: "panic".into(), message: p });
                            break;
                        }
                    }
                }
                acc.failure = Some(match (fin, first_failure) {
                    (Some(f), _) => FailRec { case: serde_json::to_value(&minimal).unwrap(), signature: f.signature, message: f.message },
                    (None, Some(ff)) => FailRec { message: format!("{} (the shrunk case did not fail again when re-run: schedule-dependent; this is the originally generated failing case)", ff.message), ..ff },
                    (None, None) => FailRec { case: serde_json::to_value(&minimal).unwrap(), signature: "unstable".into(), message: "minimal case no longer fails when re-run".into() },
                });
            }
            Err(TestError::Abort(r)) => {
                eprintln!("shard {shard}: proptest aborted: {r}");
                std::process::exit(2);
            }
        }
    }
    let _ = std::fs::remove_file(&journal);
    std::fs::write(out, serde_json::to_vec(&acc).unwrap()).expect("write shard report");
}

/// Generate `n` values from a strategy deterministically (used by template builders).
pub fn sample_strategy<T: std::fmt::Debug>(s: &BoxedStrategy<T>, seed: u64, n: usize) -> Vec<T> {
    let rng = TestRng::from_seed(RngAlgorithm::ChaCha, &mix(seed, "templates", 0));
    let mut runner = TestRunner::new_with_rng(Config { failure_persistence: None, ..Config::default() }, rng);
    (0..n).map(|_| s.new_tree(&mut runner).unwrap().current()).collect()
}

#[derive(Deserialize)]
struct RegressFile {
    expect: String,
    #[serde(default)]
    signature: Option<String>,
    #[serde(default)]
    note: Option<String>,
    case: Value,
}

struct Args {
    tier: Tier,
    shard: Option<(usize, usize)>,
    out: Option<PathBuf>,
    replay: Option<PathBuf>,
    one: Option<PathBuf>,
    journal: bool,
    /// skip (do not execute) the first n generated cases of the shard: resume after a case that killed the process
    resume_after: u64,
}

fn parse_args(args: &[String]) -> Args {
    let mut a = Args {
        tier: match std::env::var("VERIF_TIER").as_deref() {
            Ok("thorough") => Tier::Thorough,
            _ => Tier::Quick,
        },
        shard: None,
        out: None,
        replay: None,
        one: None,
        journal: false,
        resume_after: 0,
    };
    let mut i = 0;
    while i < args.len() {
        match args[i].as_str() {
            "--tier" => {
                a.tier = if args[i + 1] == "thorough" { Tier::Thorough } else { Tier::Quick };
                i += 1;
            }
            "--shard" => {
                let (x, y) = args[i + 1].split_once('/').expect("--shard i/k");
                a.shard = Some((x.parse().unwrap(), y.parse().unwrap()));
                i += 1;
            }
            "--out" => {
                a.out = Some(PathBuf::from(&args[i + 1]));
                i += 1;
            }
            "--replay" => {
                a.replay = Some(PathBuf::from(&args[i + 1]));
                i += 1;
            }
            "--journal" => a.journal = true,
            "--resume-after" => {
                a.resume_after = args[i + 1].parse().unwrap_or(0);
                i += 1;
            }
            "--one" => {
                a.one = Some(PathBuf::from(&args[i + 1]));
                i += 1;
            }
            other => panic!("unknown argument {other}"),
        }
        i += 1;
    }
    a
}

/// true while this process evaluates exactly one case and reports through a JSON verdict line
pub static ONE_MODE: std::sync::atomic::AtomicBool = std::sync::atomic::AtomicBool::new(false);

/// Print a failing verdict and leave the process immediately (used by hooks that detect a fatal
/// condition on a thread that cannot be unwound). In shard mode the parent re-runs the journaled
/// case alone and obtains this verdict from that child.
pub fn fatal_verdict(property: &str, signature: &str, message: &str) -> ! {
    static ONLY_ONE: std::sync::Mutex<()> = std::sync::Mutex::new(());
    let _guard = ONLY_ONE.lock();
    if ONE_MODE.load(std::sync::atomic::Ordering::Relaxed) {
        println!("{}", json!({"verdict": "fail", "property": property, "signature": signature, "message": message}));
        use std::io::Write;
        let _ = std::io::stdout().flush();
    }
    std::process::exit(77)
}

/// Run one case file in this process; prints a JSON verdict line. Used for isolation.
fn one_main<C: Check>(check: &C, path: &Path) -> i32 {
    quiet_panics();
    ONE_MODE.store(true, std::sync::atomic::Ordering::Relaxed);
    let v: Value = serde_json::from_slice(&std::fs::read(path).expect("read case")).expect("case json");
    let v = v.get("case").cloned().unwrap_or(v);
    let case: C::Case = serde_json::from_value(v).expect("case does not deserialize for this property");
    let out = match guarded(|| check.run(&case)) {
        Ok(o) => o,
        Err(p) => {
            let mut o = Outcome::default();
            o.fail("harness-or-target-panic", p);
            o
        }
    };
    match out.fail {
        None => {
            println!("{}", json!({"verdict": "pass", "nontrivial": out.nontrivial, "labels": out.labels}));
            0
        }
        Some(f) => {
            println!("{}", json!({"verdict": "fail", "signature": f.signature, "message": f.message}));
            1
        }
    }
}

/// Evaluate one case, in a child process if the check asks for isolation.
fn eval_case<C: Check>(check: &C, case_json: &Value, tmpdir: &Path) -> Result<Outcome, String> {
    let child = serde_json::from_value::<C::Case>(case_json.clone()).map(|c| check.isolate_case(&c)).unwrap_or_else(|_| check.isolate());
    eval_case_in(check, case_json, tmpdir, child)
}

/// run a child until it exits or the deadline passes (then it is killed and None is returned)
fn run_until(cmd: &mut std::process::Command, deadline: Instant) -> Option<(std::process::ExitStatus, String)> {
    let mut ch = cmd.stdout(std::process::Stdio::null()).stderr(std::process::Stdio::piped()).spawn().ok()?;
    // drain stderr on a thread so that a chatty child cannot block on a full pipe
    let mut err = ch.stderr.take();
    let reader = std::thread::spawn(move || {
        let mut s = String::new();
        if let Some(e) = err.as_mut() {
            let _ = std::io::Read::read_to_string(e, &mut s);
        }
        s
    });
    loop {
        match ch.try_wait() {
            Ok(Some(st)) => return Some((st, reader.join().unwrap_or_default())),
            Ok(None) => {
                if Instant::now() > deadline {
                    let _ = ch.kill();
                    let _ = ch.wait();
                    return None;
                }
                std::thread::sleep(Duration::from_millis(20));
            }
            Err(_) => return None,
        }
    }
}

static CHILD_TIMEOUTS: std::sync::atomic::AtomicU32 = std::sync::atomic::AtomicU32::new(0);

fn eval_case_in<C: Check>(check: &C, case_json: &Value, tmpdir: &Path, child: bool) -> Result<Outcome, String> {
    if child {
        let p = tmpdir.join(format!("one-{}.json", case_hash(&case_json.to_string())));
        std::fs::write(&p, serde_json::to_vec(case_json).unwrap()).map_err(|e| e.to_string())?;
        let exe = std::env::current_exe().map_err(|e| e.to_string())?;
        // after three time-outs nothing more is re-run alone in this invocation (each costs the full limit)
        if CHILD_TIMEOUTS.load(std::sync::atomic::Ordering::SeqCst) >= 3 {
            return Err("not run: three earlier child runs timed out".into());
        }
        // a child that hangs (threads of a corrupted process waiting for each other) is killed: the case
        // stays unjudged (inconclusive), a time-out is never a verdict
        let mut ch = std::process::Command::new(exe).arg(check.id()).arg("--one").arg(&p).stdout(std::process::Stdio::piped()).stderr(std::process::Stdio::piped()).spawn().map_err(|e| e.to_string())?;
        let pid = ch.id();
        let (tx, rx) = std::sync::mpsc::channel::<()>();
        let limit = check.one_case_limit();
        let killer = std::thread::spawn(move || match rx.recv_timeout(limit) {
            Err(std::sync::mpsc::RecvTimeoutError::Timeout) => {
                let _ = std::process::Command::new("kill").arg("-9").arg(pid.to_string()).status();
                true
            }
            _ => false,
        });
        let o = ch.wait_with_output();
        let _ = tx.send(());
        let killed = killer.join().unwrap_or(false);
        let _ = std::fs::remove_file(&p);
        if killed {
            CHILD_TIMEOUTS.fetch_add(1, std::sync::atomic::Ordering::SeqCst);
            println!("INCONCLUSIVE property={}: a case re-run alone in a child process did not finish within {:?} and was killed", check.id(), limit);
            return Err("child timed out".into());
        }
        let o = o.map_err(|e| e.to_string())?;
        let stdout = String::from_utf8_lossy(&o.stdout);
        let verdict = stdout.lines().rev().filter(|l| l.starts_with('{')).find_map(|l| serde_json::from_str::<Value>(l).ok());
        match verdict {
            Some(v) if v["verdict"] == "pass" => {
                let mut out = Outcome::default();
                out.nontrivial = v["nontrivial"].as_bool().unwrap_or(false);
                Ok(out)
            }
            Some(v) => {
                let mut out = Outcome::default();
                match v["property"].as_str() {
                    // a fatal condition that belongs to another property: this check cannot judge the case
                    Some(p) if p != check.id() => out.label("case-aborted-by-violation-of-another-property"),
                    _ => out.fail(v["signature"].as_str().unwrap_or("?"), v["message"].as_str().unwrap_or("?")),
                }
                Ok(out)
            }
            None if std::os::unix::process::ExitStatusExt::signal(&o.status) == Some(9) => {
                // killed from outside (out-of-memory killer, operator): never a verdict
                println!("INCONCLUSIVE property={}: a case re-run alone in a child process was killed (SIGKILL)", check.id());
                Err("child was killed".into())
            }
            None => {
                let mut out = Outcome::default();
                out.fail("abnormal-exit", format!("child died without verdict: status {:?}; stderr tail: {}", o.status, String::from_utf8_lossy(&o.stderr).lines().rev().take(5).collect::<Vec<_>>().join(" | ")));
                Ok(out)
            }
        }
    } else {
        let case: C::Case = serde_json::from_value(case_json.clone()).map_err(|e| format!("case does not deserialize: {e}"))?;
        Ok(match guarded(|| check.run(&case)) {
            Ok(o) => o,
            Err(p) => {
                let mut o = Outcome::default();
                o.fail("harness-or-target-panic", p);
                o
            }
        })
    }
}


/// Parent-side reduction for cases that could not be shrunk by proptest (the child process died,
/// or the case came from a template): delta-debugging over the JSON arrays of the case ("ops",
/// "threads", "ticks", "calls", ...). A candidate is kept only if it still fails with the same
/// signature when evaluated alone. Bounded by `budget` evaluations.
fn reduce_case<C: Check>(check: &C, case: Value, signature: &str, tmpdir: &Path, budget: usize) -> Value {
    fn arrays(v: &Value, path: &mut Vec<String>, out: &mut Vec<Vec<String>>) {
        match v {
            Value::Array(a) => {
                if a.len() >= 2 {
                    out.push(path.clone());
                }
                for (i, x) in a.iter().enumerate() {
                    path.push(i.to_string());
                    arrays(x, path, out);
                    path.pop();
                }
            }
            Value::Object(o) => {
                for (k, x) in o {
                    path.push(k.clone());
                    arrays(x, path, out);
                    path.pop();
                }
            }
            _ => {}
        }
    }
    fn get_mut<'a>(v: &'a mut Value, path: &[String]) -> Option<&'a mut Value> {
        let mut cur = v;
        for p in path {
            cur = match cur {
                Value::Array(a) => a.get_mut(p.parse::<usize>().ok()?)?,
                Value::Object(o) => o.get_mut(p)?,
                _ => return None,
            };
        }
        Some(cur)
    }
    let mut best = case;
    let mut evals = 0usize;
    let mut progress = true;
    while progress && evals < budget {
        progress = false;
        let mut paths = vec![];
        arrays(&best, &mut vec![], &mut paths);
        // longest arrays first
        paths.sort_by_key(|p| std::cmp::Reverse(get_mut(&mut best.clone(), p).and_then(|v| v.as_array().map(|a| a.len())).unwrap_or(0)));
        'outer: for path in paths {
            let len = match get_mut(&mut best.clone(), &path).and_then(|v| v.as_array().map(|a| a.len())) {
                Some(l) if l >= 2 => l,
                _ => continue,
            };
            let mut chunk = len / 2;
            while chunk >= 1 {
                let mut start = 0;
                while start < len {
                    if evals >= budget {
                        break 'outer;
                    }
                    let mut cand = best.clone();
                    if let Some(Value::Array(a)) = get_mut(&mut cand, &path) {
                        let end = (start + chunk).min(a.len());
                        if end - start >= a.len() {
                            start += chunk;
                            continue;
                        }
                        a.drain(start..end);
                    }
                    evals += 1;
                    let still = eval_case(check, &cand, tmpdir).ok().and_then(|o| o.fail).map_or(false, |f| f.signature == signature);
                    if still {
                        best = cand;
                        progress = true;
                        continue 'outer;
                    }
                    start += chunk;
                }
                chunk /= 2;
            }
        }
    }
    best
}

fn write_replay(id: &str, rec: &FailRec) -> PathBuf {
    let dir = verif_root().join("replays").join(id);
    let _ = std::fs::create_dir_all(&dir);
    let h = case_hash(&rec.case.to_string());
    let p = dir.join(format!("{:016x}.json", h));
    let body = json!({"property": id, "signature": rec.signature, "message": rec.message, "case": rec.case});
    std::fs::write(&p, serde_json::to_vec_pretty(&body).unwrap()).expect("write replay");
    p
}

pub fn main_for<C: Check>(check: &C, args: &[String]) -> i32 {
    let a = parse_args(args);
    if let Some((i, k)) = a.shard {
        shard_main(check, a.tier, seed_from_env(), i, k, a.out.as_deref().expect("--out"), a.journal, a.resume_after);
        return 0;
    }
    if let Some(p) = &a.one {
        return one_main(check, p);
    }
    let id = check.id();
    let root = verif_root();
    let tmpdir = root.join("harness").join("run-tmp").join(format!("{id}-{}", std::process::id()));
    let _ = std::fs::create_dir_all(&tmpdir);
    let code = parent_main(check, &a, &tmpdir);
    let _ = std::fs::remove_dir_all(&tmpdir);
    code
}

fn parent_main<C: Check>(check: &C, a: &Args, tmpdir: &Path) -> i32 {
    let id = check.id();
    let root = verif_root();
    quiet_panics();

    // ---- replay mode: strict, no known-finding tolerance ---------------------------------
    if let Some(p) = &a.replay {
        let v: Value = match std::fs::read(p).ok().and_then(|b| serde_json::from_slice(&b).ok()) {
            Some(v) => v,
            None => {
                eprintln!("cannot read replay file {}", p.display());
                return 2;
            }
        };
        let case = v.get("case").cloned().unwrap_or(v);
        return match eval_case(check, &case, tmpdir) {
            Ok(o) => match o.fail {
                None => {
                    println!("replay {}: property {id} HOLDS on this case", p.display());
                    0
                }
                Some(f) => {
                    println!("replay {}: FAILS [{}] {}", p.display(), f.signature, f.message);
                    println!("VIOLATION property={id} replay={}", p.display());
                    1
                }
            },
            Err(e) => {
                eprintln!("replay error: {e}");
                2
            }
        };
    }

    let t0 = Instant::now();
    let seed = seed_from_env();
    let known = load_known(id);
    let mut violations: Vec<(PathBuf, String)> = vec![];
    let mut known_seen: BTreeMap<String, u64> = BTreeMap::new();
    let mut total = Acc::default();
    let mut regress_run = 0u64;

    // ---- (a) regress tier ------------------------------------------------------------------
    let rdir = root.join("regress").join(id);
    let mut files: Vec<PathBuf> = std::fs::read_dir(&rdir).map(|d| d.filter_map(|e| e.ok().map(|e| e.path())).filter(|p| p.extension().map_or(false, |e| e == "json")).collect()).unwrap_or_default();
    files.sort();
    for f in &files {
        let rf: RegressFile = match std::fs::read(f).ok().and_then(|b| serde_json::from_slice(&b).ok()) {
            Some(r) => r,
            None => {
                eprintln!("regress file {} unreadable", f.display());
                return 2;
            }
        };
        regress_run += 1;
        let out = match eval_case(check, &rf.case, tmpdir) {
            Ok(o) => o,
            Err(e) => {
                eprintln!("regress {}: {e}", f.display());
                return 2;
            }
        };
        match (rf.expect.as_str(), &out.fail) {
            ("pass", None) => {}
            ("pass", Some(fl)) => {
                println!("regress {} ({}): FAILS [{}] {}", f.display(), rf.note.clone().unwrap_or_default(), fl.signature, fl.message);
                violations.push((f.clone(), fl.signature.clone()));
            }
            ("known", Some(fl)) => {
                let sig = rf.signature.clone().unwrap_or_default();
                if fl.signature == sig && known.iter().any(|k| k.status == "known" && k.signature == sig) {
                    *known_seen.entry(sig).or_insert(0) += 1;
                } else {
                    println!("regress {}: expected known signature [{}] but got [{}] {}", f.display(), sig, fl.signature, fl.message);
                    violations.push((f.clone(), fl.signature.clone()));
                }
            }
            ("known", None) => {
                println!("note: known finding recorded in {} no longer reproduces", f.display());
            }
            (other, _) => {
                eprintln!("regress {}: bad expect {other}", f.display());
                return 2;
            }
        }
    }

    // ---- (b) templates ---------------------------------------------------------------------
    let templates = check.templates(a.tier);
    let mut template_count = 0u64;
    let mut template_unjudged = 0u64;
    for case in &templates {
        template_count += 1;
        let cj = serde_json::to_value(case).unwrap();
        let out = match eval_case(check, &cj, tmpdir) {
            Ok(o) => o,
            Err(e) => {
                // not judged (time-out / killed): the run is inconclusive, but what was found so far is still reported
                eprintln!("template: {e}");
                template_unjudged += 1;
                continue;
            }
        };
        match &out.fail {
            None => total.record(case, &out),
            Some(fl) => {
                if known.iter().any(|k| k.status == "known" && k.signature == fl.signature) {
                    *known_seen.entry(fl.signature.clone()).or_insert(0) += 1;
                    total.evaluations += 1;
                } else {
                    // templates are hand-written skeletons: reduce them for the replay file (first two only, bounded)
                    let reduced = if violations.len() < 2 { reduce_case(check, cj.clone(), &fl.signature, tmpdir, 60) } else { cj.clone() };
                    let rec = FailRec { case: reduced, signature: fl.signature.clone(), message: fl.message.clone() };
                    let p = write_replay(id, &rec);
                    println!("template case FAILS [{}] {}", fl.signature, fl.message);
                    violations.push((p, fl.signature.clone()));
                }
            }
        }
    }

    // ---- (c) generated tier, sharded ------------------------------------------------------
    let nshards = check.shards(a.tier).max(1);
    let exe = std::env::current_exe().expect("current_exe");
    let mut children = vec![];
    for i in 0..nshards {
        let out = tmpdir.join(format!("shard-{i}.json"));
        let child = std::process::Command::new(&exe)
            .arg(id)
            .arg("--tier")
            .arg(a.tier.name())
            .arg("--shard")
            .arg(format!("{i}/{nshards}"))
            .arg("--out")
            .arg(&out)
            .env("VERIF_SEED", seed.to_string())
            .stdout(std::process::Stdio::null())
            .stderr(std::process::Stdio::piped())
            .spawn()
            .expect("spawn shard");
        children.push((i, out, child));
    }
    let deadline = Instant::now() + check.watchdog(a.tier);
    let mut infra_fail = template_unjudged > 0;
    let mut pending: Vec<_> = children;
    let mut finished: Vec<(usize, PathBuf, std::process::ExitStatus, String)> = vec![];
    while !pending.is_empty() {
        let mut still = vec![];
        for (i, out, mut ch) in pending {
            match ch.try_wait() {
                Ok(Some(st)) => {
                    let mut err = String::new();
                    if let Some(mut e) = ch.stderr.take() {
                        use std::io::Read;
                        let _ = e.read_to_string(&mut err);
                    }
                    finished.push((i, out, st, err));
                }
                Ok(None) => {
                    // a journaling shard that has been sitting on one case for minutes is hung (threads of a
                    // corrupted process waiting for each other): kill it, the analysis below treats it like a
                    // shard that died on that case
                    let stalled = check.isolate()
                        && std::fs::metadata(out.with_extension("cur")).and_then(|m| m.modified()).ok().and_then(|t| t.elapsed().ok()).map_or(false, |age| age > check.case_stall_limit());
                    if stalled {
                        println!("shard {i}: no progress on its current case for {:?}; killed", check.case_stall_limit());
                        let _ = ch.kill();
                    }
                    still.push((i, out, ch))
                }
                Err(_) => still.push((i, out, ch)),
            }
        }
        pending = still;
        if pending.is_empty() {
            break;
        }
        if Instant::now() > deadline {
            for (_, _, ch) in pending.iter_mut() {
                let _ = ch.kill();
            }
            println!("INCONCLUSIVE property={id}: watchdog expired after {:?}", check.watchdog(a.tier));
            infra_fail = true;
            break;
        }
        std::thread::sleep(Duration::from_millis(20));
    }
    // crash analysis (re-running blamed cases alone, resuming shards behind them) has its own budget
    let post_deadline = Instant::now() + match a.tier {
        Tier::Quick => Duration::from_secs(300),
        Tier::Thorough => Duration::from_secs(3600),
    };
    let mut post_expired = false;
    for (i, out, st, err) in finished {
        let rep: Option<Acc> = std::fs::read(&out).ok().and_then(|b| serde_json::from_slice(&b).ok());
        match rep {
            Some(r) => {
                total.evaluations += r.evaluations;
                total.sub_evals += r.sub_evals;
                total.nontrivial.extend(r.nontrivial);
                for (k, v) in r.labels {
                    *total.labels.entry(k).or_insert(0) += v;
                }
                for s in r.samples {
                    if total.samples.len() < 40 {
                        total.samples.push(s);
                    }
                }
                for (k, (n, ex)) in r.known {
                    *known_seen.entry(k.clone()).or_insert(0) += n;
                    total.known.entry(k).or_insert((0, ex)).0 += n;
                }
                if let Some(f) = r.failure {
                    let p = write_replay(id, &f);
                    println!("shard {i}: minimal failing case [{}] {}", f.signature, f.message);
                    violations.push((p, f.signature));
                }
            }
            None => {
                // abnormal death: blame the journaled case if there is one, then resume the shard behind it
                let cur = out.with_extension("cur");
                let mut journal: Option<Value> = std::fs::read(&cur).ok().and_then(|b| serde_json::from_slice::<Value>(&b).ok());
                if journal.is_some() {
                    let mut attempts = 0;
                    let mut st_now = format!("{st:?}");
                    let mut err_now = err.clone();
                    while let Some(j) = journal.take() {
                        if Instant::now() > post_deadline {
                            if !post_expired {
                                println!("INCONCLUSIVE property={id}: the budget for analysing dead shards is used up; remaining shards are not resumed");
                            }
                            post_expired = true;
                            infra_fail = true;
                            break;
                        }
                        attempts += 1;
                        let index = j.get("index").and_then(|v| v.as_u64()).unwrap_or(0);
                        let case = j.get("case").cloned().unwrap_or(j.clone());
                        // confirm by re-running the case alone
                        let confirmed = eval_case(check, &case, tmpdir).ok().and_then(|o| o.fail);
                        match confirmed {
                            Some(f) => {
                                if known.iter().any(|k| k.status == "known" && k.signature == f.signature) {
                                    *known_seen.entry(f.signature.clone()).or_insert(0) += 1;
                                } else if !violations.iter().any(|v| v.1 == f.signature) || violations.len() < 3 {
                                    let reduced = reduce_case(check, case.clone(), &f.signature, tmpdir, 120);
                                    let rec = FailRec { signature: f.signature.clone(), message: f.message.clone(), case: reduced };
                                    let p = write_replay(id, &rec);
                                    println!("shard {i}: child died ({st_now}); case #{index} confirmed failing alone [{}] {} (replay reduced by parent-side delta debugging)", f.signature, f.message);
                                    violations.push((p, f.signature));
                                }
                            }
                            None => {
                                // the case cannot be judged by this check (it passes alone, or it was aborted by a
                                // violation that belongs to another property): skip it and carry on behind it
                                *total.labels.entry("case-skipped-after-process-death".into()).or_insert(0) += 1;
                                let _ = &err_now;
                            }
                        }
                        if attempts > 12 || index == 0 {
                            println!("INCONCLUSIVE property={id}: shard {i} keeps dying; giving up on it after {attempts} restarts");
                            infra_fail = true;
                            break;
                        }
                        // resume the shard behind the blamed case
                        let out_r = tmpdir.join(format!("shard-{i}-r{attempts}.json"));
                        let o = run_until(std::process::Command::new(&exe).arg(id).arg("--tier").arg(a.tier.name()).arg("--shard").arg(format!("{i}/{nshards}")).arg("--out").arg(&out_r).arg("--resume-after").arg(index.to_string()).env("VERIF_SEED", seed.to_string()), post_deadline);
                        let Some(o) = o else {
                            println!("INCONCLUSIVE property={id}: resumed shard {i} did not finish within the analysis budget and was killed");
                            infra_fail = true;
                            break;
                        };
                        match std::fs::read(&out_r).ok().and_then(|b| serde_json::from_slice::<Acc>(&b).ok()) {
                            Some(r) => {
                                total.evaluations += r.evaluations;
                                total.sub_evals += r.sub_evals;
                                total.nontrivial.extend(r.nontrivial);
                                for (k, v) in r.labels {
                                    *total.labels.entry(k).or_insert(0) += v;
                                }
                                for (k, (n, ex)) in r.known {
                                    *known_seen.entry(k.clone()).or_insert(0) += n;
                                    total.known.entry(k).or_insert((0, ex)).0 += n;
                                }
                                if let Some(f) = r.failure {
                                    let p = write_replay(id, &f);
                                    println!("shard {i} (resumed): minimal failing case [{}] {}", f.signature, f.message);
                                    violations.push((p, f.signature));
                                }
                            }
                            None => {
                                st_now = format!("{:?}", o.0);
                                err_now = o.1.clone();
                                journal = std::fs::read(out_r.with_extension("cur")).ok().and_then(|b| serde_json::from_slice::<Value>(&b).ok());
                                if journal.is_none() {
                                    println!("INCONCLUSIVE property={id}: resumed shard {i} died without a journaled case ({st_now})");
                                    infra_fail = true;
                                }
                            }
                        }
                    }
                } else {
                    // a shard that does not journal its cases died (abort / signal: memory corruption?): the
                    // generated tier is deterministic, so run that shard again with journaling to find the case
                    let out2 = tmpdir.join(format!("shard-{i}-journal.json"));
                    let st2 = run_until(std::process::Command::new(&exe).arg(id).arg("--tier").arg(a.tier.name()).arg("--shard").arg(format!("{i}/{nshards}")).arg("--out").arg(&out2).arg("--journal").env("VERIF_SEED", seed.to_string()), post_deadline).map(|o| o.0);
                    let cur2 = out2.with_extension("cur");
                    let case = std::fs::read(&cur2).ok().and_then(|b| serde_json::from_slice::<Value>(&b).ok()).map(|j| j.get("case").cloned().unwrap_or(j));
                    match (case, out2.exists()) {
                        (Some(case), false) => {
                            let verdict = eval_case_in(check, &case, tmpdir, true).ok().and_then(|o| o.fail);
                            match verdict {
                                Some(f) => {
                                    let sig = if f.signature == "abnormal-exit" { "process-crash".to_string() } else { f.signature.clone() };
                                    if known.iter().any(|k| k.status == "known" && k.signature == sig) {
                                        *known_seen.entry(sig).or_insert(0) += 1;
                                    } else {
                                        let rec = FailRec { case, signature: sig.clone(), message: format!("the process died while executing this case ({st:?}; {}); alone in a child process: {}", err.lines().rev().take(2).collect::<Vec<_>>().join(" | "), f.message) };
                                        let p = write_replay(id, &rec);
                                        println!("shard {i}: process died ({st:?}); journaled re-run blames this case [{}] {}", sig, rec.message);
                                        violations.push((p, sig));
                                    }
                                }
                                None => {
                                    println!("INCONCLUSIVE property={id}: shard {i} died ({st:?}) and again with journaling, but the blamed case passes alone");
                                    infra_fail = true;
                                }
                            }
                        }
                        _ => {
                            println!("INCONCLUSIVE property={id}: shard {i} died without report ({st:?}; journaled re-run: {st2:?}): {}", err.lines().rev().take(6).collect::<Vec<_>>().join(" | "));
                            infra_fail = true;
                        }
                    }
                }
            }
        }
    }

    // ---- report -----------------------------------------------------------------------------
    for k in known.iter().filter(|k| k.status == "known") {
        let n = known_seen.get(&k.signature).copied().unwrap_or(0);
        println!("KNOWN-FINDING: property={id} {} [signature {}; met {} times in this run]", k.what, k.signature, n);
    }
    let mut seen_sig = HashSet::new();
    for (p, sig) in &violations {
        if seen_sig.insert(sig.clone()) || violations.len() <= 4 {
            println!("VIOLATION property={id} replay={}", p.display());
        }
    }
    let wall = t0.elapsed().as_secs_f64();
    let mut labels = serde_json::Map::new();
    for (k, v) in &total.labels {
        labels.insert(k.clone(), json!(v));
    }
    let mut coverage = json!({
        "evaluations": total.evaluations,
        "distinct_nontrivial": total.nontrivial.len(),
        "rule": check.rule(),
        "samples": total.samples.iter().take(16).collect::<Vec<_>>(),
        "label_histogram": labels,
        "regress_cases": regress_run,
        "template_cases": template_count,
        "generated_cases_requested": check.total_cases(a.tier),
        "oracle_sub_evaluations": total.sub_evals,
        "excluded_by_known_finding": total.known.iter().map(|(k, (n, ex))| json!({"signature": k, "count": n, "example": ex})).collect::<Vec<_>>(),
        "exhaustive": check.exhaustive(),
        "shards": nshards,
    });
    if let (Value::Object(c), Value::Object(x)) = (&mut coverage, check.extra_coverage()) {
        for (k, v) in x {
            c.insert(k, v);
        }
    }
    if let Ok(p) = std::env::var("VERIF_BUILD_PROFILE") {
        coverage["build_profile"] = json!(p);
    }
    if let Ok(p) = std::env::var("VERIF_OTHER_PASS") {
        coverage["other_build_pass"] = json!(p);
    }
    if total.nontrivial.len() < 2 {
        coverage["coverage_warning"] = json!("fewer than 2 distinct non-trivial cases in this run");
    }
    let ev = json!({
        "property_id": id,
        "tier": a.tier.name(),
        "seed": seed as i64,
        "level": check.level(),
        "coverage": coverage,
        "assumptions": check.assumptions(),
        "wall_s": wall,
        "violations": violations.len(),
    });
    let evdir = root.join("evidence");
    let _ = std::fs::create_dir_all(&evdir);
    std::fs::write(evdir.join(format!("{id}.json")), serde_json::to_vec_pretty(&ev).unwrap()).expect("write evidence");
    println!(
        "{id} [{}] seed={seed}: {} evaluations ({} regress, {} templates), {} distinct non-trivial, {} violations, {:.1}s",
        a.tier.name(),
        total.evaluations,
        regress_run,
        template_count,
        total.nontrivial.len(),
        violations.len(),
        wall
    );
    if !violations.is_empty() {
        1
    } else if infra_fail {
        2
    } else {
        0
    }
}
