pub fn x(){}
