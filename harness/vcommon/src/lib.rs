pub mod driver;
pub mod gen;
pub mod oracle;
