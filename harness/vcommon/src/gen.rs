//! Generators: weighted character pools, palettes (small alphabets so that several alignments /
//! occurrences exist), constructive needle derivation. No filtering.

use crate::oracle::{fold_table, norm, norm_fix, Cfg};
use proptest::prelude::*;
use serde::{Deserialize, Serialize};
use std::sync::OnceLock;

pub const ASCII_LOWER: &str = "abcxyz";
pub const ASCII_UPPER: &str = "ABCXYZ";
pub const DIGITS: &str = "0129";
pub const WHITES: &[char] = &[' ', '\t', '\n', '\r', '\u{c}', '\u{a0}', '\u{3000}', '\u{2003}'];
pub const DELIMS: &str = "/,:;|\\";
pub const NONWORD: &str = "-_.()!^$'\"";
/// ASCII characters next to the letter / digit ranges and their bit-5 twins ('[' / '{', '@' / '`', '_' / DEL,
/// control characters / digits): off-by-one range checks and "case bit" tricks meet them
pub const ASCII_EDGE: &str = "@[]`{}|~\u{7f}\u{10}\u{11}\u{1}\u{1b}:/";
/// Latin chars with / without an NFKD-ASCII base
pub const LATIN: &str = "äéüÄÉñçłÆßøºª⁹²ḋḣẉẛſÅåǅǆ";
pub const GREEK_CYR: &str = "σςΣαΑωΩжЖдДµ";
pub const CJK_ETC: &str = "漢字カタかな한글";
pub const NUMERIC: &str = "²Ⅷ٣½";
pub const EMOJI_MARKS: &str = "😀🎉\u{301}\u{308}\u{200d}";

/// lower-case letters that still case-fold (ς ſ µ ẛ ι-with-ypogegrammeni …): all c with
/// is_lowercase(c) and fold(c) != c, from the UCD table.
pub fn folding_lowercase() -> &'static Vec<char> {
    static T: OnceLock<Vec<char>> = OnceLock::new();
    T.get_or_init(|| {
        let mut v: Vec<char> = fold_table().keys().copied().filter(|c| c.is_lowercase()).collect();
        v.sort();
        v
    })
}
/// upper-case (folding) non-ASCII chars
pub fn folding_upper_sample() -> &'static Vec<char> {
    static T: OnceLock<Vec<char>> = OnceLock::new();
    T.get_or_init(|| {
        let mut v: Vec<char> = fold_table().keys().copied().filter(|c| !c.is_lowercase() && !c.is_ascii()).collect();
        v.sort();
        v
    })
}

fn pick(s: &'static str) -> BoxedStrategy<char> {
    let v: Vec<char> = s.chars().collect();
    proptest::sample::select(v).boxed()
}

/// one character from the weighted pools
pub fn any_pool_char() -> BoxedStrategy<char> {
    prop_oneof![
        30 => pick(ASCII_LOWER),
        12 => pick(ASCII_UPPER),
        6 => pick(DIGITS),
        8 => proptest::sample::select(WHITES.to_vec()),
        8 => pick(DELIMS),
        8 => pick(NONWORD),
        3 => pick(ASCII_EDGE),
        8 => pick(LATIN),
        6 => pick(GREEK_CYR),
        3 => pick(CJK_ETC),
        2 => pick(NUMERIC),
        2 => pick(EMOJI_MARKS),
        4 => proptest::sample::select(folding_lowercase().clone()),
        2 => proptest::sample::select(folding_upper_sample().clone()),
        1 => (0x80u32..0x3000).prop_map(|c| char::from_u32(c).unwrap_or('x')),
    ]
    .boxed()
}
/// ASCII-only pools (all representation pairs apply)
pub fn ascii_pool_char() -> BoxedStrategy<char> {
    prop_oneof![
        30 => pick(ASCII_LOWER),
        12 => pick(ASCII_UPPER),
        6 => pick(DIGITS),
        6 => proptest::sample::select(vec![' ', '\t', '\n', '\r', '\u{c}']),
        8 => pick(DELIMS),
        8 => pick(NONWORD),
        4 => pick(ASCII_EDGE),
    ]
    .boxed()
}

#[derive(Clone, Copy, Debug, PartialEq, Eq)]
pub enum PaletteKind {
    Ascii,
    Mixed,
    /// contains at least one lower-case-but-folding character
    FoldingLower,
    /// ASCII characters together with their bit-5 twins (c ^ 0x20)
    AsciiTwins,
}

/// a palette: 2–6 characters; haystack characters are drawn from it
pub fn palette(kind: PaletteKind) -> BoxedStrategy<Vec<char>> {
    match kind {
        PaletteKind::Ascii => proptest::collection::vec(ascii_pool_char(), 2..=6).boxed(),
        PaletteKind::Mixed => proptest::collection::vec(any_pool_char(), 2..=6).boxed(),
        PaletteKind::AsciiTwins => (proptest::collection::vec(prop_oneof![3 => pick(ASCII_EDGE), 1 => pick(ASCII_LOWER), 1 => pick(DIGITS)], 1..=3), proptest::collection::vec(ascii_pool_char(), 0..=2))
            .prop_map(|(es, mut v)| {
                for c in es {
                    v.push(c);
                    v.push(((c as u8) ^ 0x20) as char);
                }
                v
            })
            .boxed(),
        PaletteKind::FoldingLower => (proptest::sample::select(folding_lowercase().clone()), proptest::collection::vec(any_pool_char(), 1..=5))
            .prop_map(|(c, mut v)| {
                v.insert(0, c);
                // and the character it folds to, so that needle characters can hit it
                v.push(crate::oracle::ucd_fold(c));
                v
            })
            .boxed(),
    }
}
pub fn any_palette() -> BoxedStrategy<Vec<char>> {
    prop_oneof![
        27 => palette(PaletteKind::Ascii),
        38 => palette(PaletteKind::Mixed),
        27 => palette(PaletteKind::FoldingLower),
        8 => palette(PaletteKind::AsciiTwins),
    ]
    .boxed()
}

/// monotone index mapping (shrinks toward 0)
#[inline]
pub fn map_idx(sel: u16, len: usize) -> usize {
    if len == 0 {
        0
    } else {
        ((sel as usize) * len) >> 16
    }
}

pub fn text_from(palette: &[char], sels: &[u16]) -> Vec<char> {
    sels.iter().map(|&s| palette[map_idx(s, palette.len())]).collect()
}

pub fn any_cfg() -> BoxedStrategy<Cfg> {
    (any::<bool>(), any::<bool>(), any::<bool>(), prop_oneof![5 => Just(0u8), 3 => Just(1u8), 2 => Just(2u8)])
        .prop_map(|(ignore_case, normalize, prefer_prefix, profile)| Cfg { ignore_case, normalize, prefer_prefix, profile })
        .boxed()
}

/// how a needle is derived from the haystack
#[derive(Clone, Debug)]
pub enum NeedleMode {
    Empty,
    /// subsequence of the normalized haystack at the selected positions
    Subseq(Vec<u16>),
    /// subsequence with one character replaced by norm(palette char)
    SubseqMut(Vec<u16>, u16, u16),
    /// contiguous substring of the normalized haystack (start sel, len)
    Substr(u16, u8),
    /// substring ending at the last character
    Suffix(u8),
    Prefix(u8),
    /// the whole normalized haystack
    Whole,
    /// the whole haystack plus extra characters (longer than haystack)
    Longer(Vec<u16>),
    /// independent draw from the palette
    Independent(Vec<u16>),
    /// subsequence with two neighbouring characters transposed (same multiset, usually no match)
    SubseqSwap(Vec<u16>, u16),
}

pub fn needle_mode(max_len: usize) -> BoxedStrategy<NeedleMode> {
    let l = max_len.max(1);
    prop_oneof![
        3 => Just(NeedleMode::Empty),
        40 => proptest::collection::vec(any::<u16>(), 1..=l).prop_map(NeedleMode::Subseq),
        22 => (proptest::collection::vec(any::<u16>(), 1..=l), any::<u16>(), any::<u16>()).prop_map(|(v, a, b)| NeedleMode::SubseqMut(v, a, b)),
        8 => (any::<u16>(), 1u8..=(l.min(255) as u8)).prop_map(|(s, n)| NeedleMode::Substr(s, n)),
        4 => (1u8..=(l.min(255) as u8)).prop_map(NeedleMode::Suffix),
        3 => (1u8..=(l.min(255) as u8)).prop_map(NeedleMode::Prefix),
        4 => Just(NeedleMode::Whole),
        3 => proptest::collection::vec(any::<u16>(), 1..=3).prop_map(NeedleMode::Longer),
        13 => proptest::collection::vec(any::<u16>(), 1..=l).prop_map(NeedleMode::Independent),
        10 => (proptest::collection::vec(any::<u16>(), 2..=l.max(2)), any::<u16>()).prop_map(|(v, a)| NeedleMode::SubseqSwap(v, a)),
    ]
    .boxed()
}

/// derive a normalized needle (every char a fixed point of norm(., cfg))
pub fn derive_needle(hay: &[char], palette: &[char], cfg: Cfg, mode: &NeedleMode) -> Vec<char> {
    let nh: Vec<char> = hay.iter().map(|&c| norm(c, cfg)).collect();
    let fix = |v: Vec<char>| -> Vec<char> { v.into_iter().map(|c| norm_fix(c, cfg)).collect() };
    let n = nh.len();
    match mode {
        NeedleMode::Empty => vec![],
        NeedleMode::Subseq(sels) => {
            if n == 0 {
                return vec![];
            }
            let mut pos: Vec<usize> = sels.iter().map(|&s| map_idx(s, n)).collect();
            pos.sort();
            pos.dedup();
            fix(pos.into_iter().map(|p| nh[p]).collect())
        }
        NeedleMode::SubseqMut(sels, at, with) => {
            if n == 0 {
                return fix(vec![palette[map_idx(*with, palette.len())]]);
            }
            let mut pos: Vec<usize> = sels.iter().map(|&s| map_idx(s, n)).collect();
            pos.sort();
            pos.dedup();
            let mut v: Vec<char> = pos.into_iter().map(|p| nh[p]).collect();
            let k = map_idx(*at, v.len());
            v[k] = palette[map_idx(*with, palette.len())];
            fix(v)
        }
        NeedleMode::Substr(s, len) => {
            if n == 0 {
                return vec![];
            }
            let st = map_idx(*s, n);
            let en = (st + *len as usize).min(n);
            fix(nh[st..en].to_vec())
        }
        NeedleMode::Suffix(len) => {
            let l = (*len as usize).min(n);
            fix(nh[n - l..].to_vec())
        }
        NeedleMode::Prefix(len) => {
            let l = (*len as usize).min(n);
            fix(nh[..l].to_vec())
        }
        NeedleMode::Whole => fix(nh),
        NeedleMode::Longer(extra) => {
            let mut v = nh;
            v.extend(extra.iter().map(|&s| palette[map_idx(s, palette.len())]));
            fix(v)
        }
        NeedleMode::Independent(sels) => fix(sels.iter().map(|&s| palette[map_idx(s, palette.len())]).collect()),
        NeedleMode::SubseqSwap(sels, at) => {
            if n == 0 {
                return vec![];
            }
            let mut pos: Vec<usize> = sels.iter().map(|&s| map_idx(s, n)).collect();
            pos.sort();
            pos.dedup();
            let mut v: Vec<char> = pos.into_iter().map(|p| nh[p]).collect();
            if v.len() >= 2 {
                let k = map_idx(*at, v.len() - 1);
                v.swap(k, k + 1);
            }
            fix(v)
        }
    }
}

/// (de)serialise Vec<char> as a JSON string
pub mod chars_as_string {
    use serde::{Deserialize, Deserializer, Serializer};
    pub fn serialize<S: Serializer>(v: &Vec<char>, s: S) -> Result<S::Ok, S::Error> {
        s.serialize_str(&v.iter().collect::<String>())
    }
    pub fn deserialize<'de, D: Deserializer<'de>>(d: D) -> Result<Vec<char>, D::Error> {
        Ok(String::deserialize(d)?.chars().collect())
    }
}

