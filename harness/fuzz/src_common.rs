// shared by the fuzz targets (include!d): drive a proptest strategy with libFuzzer's bytes and run
// a check's oracle on the generated case; an oracle failure that is not a listed known finding
// becomes a crash, and the case is written as a replay file first.
use vcommon::driver::{case_hash, load_known, quiet_panics, verif_root, Check, KnownEntry};

pub fn judge<C: Check>(check: &C, case: &C::Case, known: &[KnownEntry]) {
    let out = check.run(case);
    if let Some(f) = out.fail {
        if known.iter().any(|k| k.status == "known" && k.signature == f.signature) {
            return;
        }
        let cj = serde_json::to_value(case).unwrap();
        let dir = verif_root().join("replays").join(check.id());
        let _ = std::fs::create_dir_all(&dir);
        let p = dir.join(format!("fuzz-{:016x}.json", case_hash(&cj.to_string())));
        let _ = std::fs::write(&p, serde_json::to_vec_pretty(&serde_json::json!({"property": check.id(), "signature": f.signature, "message": f.message, "case": cj})).unwrap());
        eprintln!("FUZZ-VIOLATION property={} replay={} [{}] {}", check.id(), p.display(), f.signature, f.message);
        std::process::abort();
    }
}

pub fn init() {
    static ONCE: std::sync::Once = std::sync::Once::new();
    ONCE.call_once(|| quiet_panics());
}
pub fn known(id: &str) -> Vec<KnownEntry> {
    load_known(id)
}
