#![no_main]
// C10 (primary): call sequences on a shared matcher vs fresh matchers, slab extents, no panic;
// plus the C01/C02/C03/C05 predicates on every call whose needle is normalized.
use libfuzzer_sys::fuzz_target;
use vmatch::mcase::MCase;
include!("../src_common.rs");

fuzz_target!(|data: &[u8]| {
    init();
    thread_local! {
        static K: (Vec<KnownEntry>, Vec<KnownEntry>, Vec<KnownEntry>, Vec<KnownEntry>, Vec<KnownEntry>) = (known("C10"), known("C01"), known("C02"), known("C03"), known("C05"));
    }
    let case = vmatch::c10::decode_seq(data);
    K.with(|k| {
        judge(&vmatch::c10::C10, &case, &k.0);
        for c in &case.calls {
            if c.hay.tile_to > 5000 || c.needle.tile_to > 5000 {
                continue;
            }
            let m = MCase { hay: c.hay.clone(), needle: c.needle.clone(), cfg: c.cfg, prior: c.prior.clone(), cap_mode: 2 };
            judge(&vmatch::c01::C01, &m, &k.1);
            judge(&vmatch::c02::C02, &m, &k.2);
            judge(&vmatch::c03::C03, &m, &k.3);
            judge(&vmatch::c05::C05, &m, &k.4);
        }
    });
});
