#![no_main]
// C17: the raw bytes (when valid UTF-8) are the string itself; slice ranges from the tail bytes
use libfuzzer_sys::fuzz_target;
include!("../src_common.rs");

fuzz_target!(|data: &[u8]| {
    init();
    thread_local! { static K: Vec<KnownEntry> = known("C17"); }
    let (tail, head) = data.split_at(data.len().min(8));
    let s = String::from_utf8_lossy(head).into_owned();
    let mut ranges = vec![];
    for ch in tail.chunks(4) {
        if ch.len() == 4 {
            ranges.push((ch[0] % 3, ch[1] % 3, (ch[2] as u16) << 8, (ch[3] as u16) << 8));
        }
    }
    if ranges.is_empty() {
        ranges.push((2, 2, 0, 0));
    }
    let case = vmatch::c17::SCase { s, ranges, prev: vec![], buf_cap: 0 };
    K.with(|k| judge(&vmatch::c17::C17, &case, k));
});
