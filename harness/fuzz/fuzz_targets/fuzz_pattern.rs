#![no_main]
// C14: reference parser, escape round trip, reparse-vs-fresh-parse
use libfuzzer_sys::fuzz_target;
include!("../src_common.rs");

fuzz_target!(|data: &[u8]| {
    init();
    thread_local! { static K: Vec<KnownEntry> = known("C14"); }
    let case = vmatch::c14::decode_pcase(data);
    K.with(|k| judge(&vmatch::c14::C14, &case, k));
});
