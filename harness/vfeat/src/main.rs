//! C17 once more, against nucleo-matcher built with `--no-default-features --features unicode-segmentation`
//! (the grapheme guarantees do not depend on the case-folding / normalization features). The check itself is
//! the file vmatch/src/c17.rs, compiled here against a minimal stand-in for the driver crate.

extern crate self as vcommon;

pub mod driver {
    use proptest::strategy::BoxedStrategy;
    #[derive(Clone, Copy, PartialEq, Eq, Debug)]
    pub enum Tier {
        Quick,
        Thorough,
    }
    #[derive(Default, Debug)]
    pub struct Outcome {
        pub nontrivial: bool,
        pub labels: Vec<String>,
        pub fail: Option<(String, String)>,
        pub sub_evals: u64,
    }
    impl Outcome {
        pub fn label(&mut self, l: &str) {
            self.labels.push(l.to_string());
        }
        pub fn fail(&mut self, sig: impl Into<String>, msg: impl Into<String>) {
            if self.fail.is_none() {
                self.fail = Some((sig.into(), msg.into()));
            }
        }
    }
    pub trait Check {
        type Case: Clone + std::fmt::Debug + serde::Serialize + serde::de::DeserializeOwned + std::hash::Hash + 'static;
        fn id(&self) -> &'static str;
        fn rule(&self) -> String;
        fn assumptions(&self) -> Vec<String> {
            vec![]
        }
        fn total_cases(&self, tier: Tier) -> u64;
        fn strategy(&self, tier: Tier) -> BoxedStrategy<Self::Case>;
        fn run(&self, case: &Self::Case) -> Outcome;
    }
    pub fn guarded<T>(f: impl FnOnce() -> T) -> Result<T, String> {
        std::panic::catch_unwind(std::panic::AssertUnwindSafe(f)).map_err(|p| p.downcast_ref::<&str>().map(|s| s.to_string()).or_else(|| p.downcast_ref::<String>().cloned()).unwrap_or_else(|| "panic".into()))
    }
}
pub mod gen {
    #[inline]
    pub fn map_idx(sel: u16, len: usize) -> usize {
        if len == 0 {
            0
        } else {
            ((sel as usize) * len) >> 16
        }
    }
}

#[path = "../../vmatch/src/c17.rs"]
pub mod c17;

use driver::{Check, Tier};
use proptest::test_runner::{Config, RngAlgorithm, TestCaseError, TestError, TestRng, TestRunner};
use std::collections::BTreeMap;

const FEATURES: &str = "unicode-segmentation";

fn main() {
    std::panic::set_hook(Box::new(|_| {}));
    let args: Vec<String> = std::env::args().collect();
    let mut cases = 40_000u32;
    let mut replay: Option<String> = None;
    let mut i = 1;
    while i < args.len() {
        match args[i].as_str() {
            "--cases" => {
                cases = args[i + 1].parse().expect("--cases N");
                i += 1;
            }
            "--replay" => {
                replay = Some(args[i + 1].clone());
                i += 1;
            }
            _ => {}
        }
        i += 1;
    }
    let check = c17::C17;
    if let Some(p) = replay {
        let v: serde_json::Value = serde_json::from_slice(&std::fs::read(&p).expect("read replay")).expect("json");
        let case: c17::SCase = serde_json::from_value(v.get("case").cloned().unwrap_or(v)).expect("case");
        let out = check.run(&case);
        match out.fail {
            Some((sig, msg)) => {
                println!("replay FAILS (nucleo-matcher features = {FEATURES}) [{sig}] {msg}");
                println!("VIOLATION property=C17 replay={p}");
                std::process::exit(1);
            }
            None => {
                println!("replay passes (nucleo-matcher features = {FEATURES})");
                std::process::exit(0);
            }
        }
    }
    let seed: u64 = std::env::var("VERIF_SEED").ok().and_then(|s| s.parse().ok()).unwrap_or(0);
    let mut bytes = [0u8; 32];
    bytes[..8].copy_from_slice(&seed.to_le_bytes());
    bytes[8..16].copy_from_slice(b"vfeatC17");
    let rng = TestRng::from_seed(RngAlgorithm::ChaCha, &bytes);
    let mut runner = TestRunner::new_with_rng(Config { cases, failure_persistence: None, max_shrink_iters: 4000, ..Config::default() }, rng);
    let labels = std::cell::RefCell::new(BTreeMap::<String, u64>::new());
    let nontrivial = std::cell::Cell::new(0u64);
    let evaluated = std::cell::Cell::new(0u64);
    let failed = std::cell::Cell::new(false);
    let t0 = std::time::Instant::now();
    let res = runner.run(&check.strategy(Tier::Quick), |case| {
        let out = check.run(&case);
        if !failed.get() {
            evaluated.set(evaluated.get() + 1);
            if out.nontrivial {
                nontrivial.set(nontrivial.get() + 1);
            }
            for l in &out.labels {
                *labels.borrow_mut().entry(l.clone()).or_insert(0) += 1;
            }
        }
        match out.fail {
            Some((sig, msg)) => {
                failed.set(true);
                Err(TestCaseError::fail(format!("[{sig}] {msg}")))
            }
            None => Ok(()),
        }
    });
    let summary = |violations: u32| {
        println!("C17 [features={FEATURES}] seed={seed}: {} evaluations, {} non-trivial, {violations} violations, {:.1}s", evaluated.get(), nontrivial.get(), t0.elapsed().as_secs_f64());
    };
    match res {
        Ok(()) => {
            summary(0);
            std::process::exit(0);
        }
        Err(TestError::Fail(reason, case)) => {
            let root = std::env::var("VERIF_ROOT").unwrap_or_else(|_| ".".into());
            let dir = format!("{root}/replays/C17");
            let _ = std::fs::create_dir_all(&dir);
            let body = serde_json::json!({"property": "C17", "features": FEATURES, "message": reason.to_string(), "case": case});
            let mut h = 0xcbf29ce484222325u64;
            for b in body.to_string().bytes() {
                h = (h ^ b as u64).wrapping_mul(0x100000001b3);
            }
            let path = format!("{dir}/feat-{h:016x}.json");
            std::fs::write(&path, serde_json::to_vec_pretty(&body).unwrap()).expect("write replay");
            println!("minimal failing case with nucleo-matcher features = {FEATURES}: {reason}");
            println!("VIOLATION property=C17 replay={path}");
            summary(1);
            std::process::exit(1);
        }
        Err(TestError::Abort(r)) => {
            println!("INCONCLUSIVE property=C17: proptest aborted: {r}");
            std::process::exit(2);
        }
    }
}
