#!/usr/bin/env python3
"""Derive the reference tables for C16 from Python's unicodedata (UCD 14.0.0 in python 3.11).

casefold_simple.tsv : <hex code point>\t<hex simple case folding>   (only entries that change)
   simple folding = casefold() if it is one code point, else the one-code-point lower() if it
   differs, else identity.  (Checked during design: reproduces all 1454 entries of the crate's
   Unicode-15 CASE_FOLDING_SIMPLE table with 0 differences.)
nfkd_ascii.tsv      : <hex code point>\t<ascii char>   for every code point whose NFKD form is an
   ASCII letter or digit followed only by combining marks (general category M*), restricted to
   non-ASCII code points.
"""
import sys, unicodedata as u

def simple_fold(c):
    cf = c.casefold()
    if len(cf) == 1:
        return cf
    lo = c.lower()
    if len(lo) == 1 and lo != c:
        return lo
    return c

def nfkd_ascii(c):
    d = u.normalize('NFKD', c)
    if not d:
        return None
    b = d[0]
    if not (b.isascii() and b.isalnum()):
        return None
    if all(u.category(x).startswith('M') for x in d[1:]):
        return b
    return None

with open('casefold_simple.tsv', 'w') as f:
    for cp in range(0x110000):
        if 0xD800 <= cp <= 0xDFFF:
            continue
        c = chr(cp)
        s = simple_fold(c)
        if s != c:
            f.write('%X\t%X\n' % (cp, ord(s)))
with open('nfkd_ascii.tsv', 'w') as f:
    for cp in range(0x80, 0x110000):
        if 0xD800 <= cp <= 0xDFFF:
            continue
        b = nfkd_ascii(chr(cp))
        if b is not None:
            f.write('%X\t%s\n' % (cp, b))
print('unidata', u.unidata_version)
